"""Correspondence legs shared by the rewrite properties (C01 C02 C04 C06 C10 C16).

  ast_leg   the tree real `ptera.transform.transform()` compiles  ==  the model's `instrument` on the same
            function and capture set; ptera's provenance table == the model's `collect`
  exec_leg  (a) the model interpreter on the untouched program      ==  CPython
            (b) the model running the rewritten program             ==  the model's reference semantics
                (the statement of `instrument_refines`, executed)
            (c) the events of the reference semantics for a focus variable == what a real probe delivers
A disagreement is recorded as a `correspondence` violation: the tie between the theorems and the code is
broken; the oracle of the property then looks for an input on which the property itself fails.
"""
import json

import astjson
import pylite
import progrun
import pyprog
import rewritecorr

EXEC_FEATURES = {"tuple", "star", "nested", "attr", "sub", "chain", "aug", "ann", "for", "while", "if", "try",
                 "with", "walrus", "import", "def", "class", "return", "raise", "breakcont"}

META = ["#value", "#enter", "#exit", "#error", "#yield", "#receive"]


def random_cfg(rng, fn):
    names = pylite.bound_names(fn) + ["GLOB1", "H", "O"] + META + ["#loop_a", "#endloop_a", "#loop_b", "O.a", "zzz"]
    r = rng.random()
    if r < 0.3:
        return [(None, None)]
    if r < 0.4:
        return [(None, rng.choice(["T", "U", "enter", "exit"]))]
    if r < 0.45:
        return []
    return [(rng.choice(names), rng.choice([None, None, None, "T", "U"])) for _ in range(rng.randrange(1, 4))]


def closure_wrap(src, fn):
    """the same function as a closure over two variables of an enclosing function"""
    lines = src.rstrip("\n").split("\n")
    body = ["    " + l for l in lines]
    return "def make_%s():\n    cv1 = 5\n    cv2 = (1, 2)\n%s\n    _keep = lambda: (cv1, cv2)\n    return %s\n%s = make_%s()\n" % (
        fn["name"], "\n".join(body).replace("return GLOB1", "return GLOB1 + cv1", 1), fn["name"], fn["name"], fn["name"])


def ast_leg(chk, n, features=None, weights=None, tag="ast"):
    drv = chk.open_driver()
    rng = chk.rng
    stats = {"programs": 0, "agree": 0, "differ": 0, "outside_fragment": 0, "closures": 0}
    for i in range(n):
        g = pylite.Gen(rng, features=features, weights=weights or {"decl": 1})
        fn = g.function(generator=rng.random() < 0.3, size=rng.randrange(3, 14))
        annp = {p: rng.choice(["int", "'@T'", "'@T & @U'"]) for p in fn["params"] if rng.random() < 0.3}
        text = pylite.render(fn, ann_params=annp)
        closure = False
        if rng.random() < 0.15 and "cv1" not in text:
            # make it a closure: read an enclosing variable somewhere
            text2 = text.replace("GLOB1", "cv1", 1)
            if text2 != text:
                lines = text2.rstrip("\n").split("\n")
                text = "def make_f():\n    cv1 = 5\n%s\n    return f\nf = make_f()\n" % "\n".join("    " + l for l in lines)
                closure = True
        src = pylite.HELPERS + "\n" + text
        mod = pyprog.make_module(src, "verif_m2_%s_%d" % (tag, i))
        cfg = random_cfg(rng, fn)
        stats["programs"] += 1
        try:
            d = rewritecorr.compare(drv, mod.f, cfg)
        except astjson.Unsupported as e:
            stats["outside_fragment"] += 1
            chk.dist("ast:unsupported:" + str(e)[:30])
            continue
        except Exception as e:  # the real transform itself failed
            d = {"what": "transform raised %s: %s" % (type(e).__name__, str(e)[:120])}
        finally:
            pyprog.drop_module(mod)
        stats["closures"] += closure
        chk.count(("ast", text, json.dumps(cfg)), nontrivial=True)
        chk.dist("ast:cfg:" + ("generic" if cfg == [(None, None)] else "empty" if not cfg else "names"))
        if d is None:
            stats["agree"] += 1
        else:
            stats["differ"] += 1
            chk.violation("correspondence",
                          "the rewritten tree of ptera.transform differs from the model's `instrument`: %s" %
                          json.dumps(d)[:300], {"source": text, "cfg": cfg, "difference": d})
    chk.cov["correspondence"]["rewrite_ast"] = stats
    return stats


# ---------------------------------------------------------------------------------------------------------

def reads_global(src, fname, name):
    """does function `fname` of the source read `name` as a global (Python's own symbol table)?"""
    import symtable
    try:
        top = symtable.symtable(src, "<src>", "exec")
        for child in top.get_children():
            if child.get_name() == fname:
                sym = child.lookup(name)
                return sym.is_global() and sym.is_referenced()
    except Exception:
        return False
    return False


def _norm_val(v):
    if isinstance(v, dict) and "exc" in v:
        return {"obj": v["exc"]}
    if isinstance(v, list):
        return [_norm_val(x) for x in v]
    return v


def norm_real(res, gen):
    out = res["outcome"]
    if out[0] == "exc":
        o = ["exc", out[1], out[2] if out[1] in ("NameError", "Boom", "Quit") else ""]
    else:
        o = ["ret", out[1]]
    ys = [y[1] for y in res["yields"] if y[0] == "y"]
    stop = [y[1] for y in res["yields"] if y[0] == "stop"]
    if gen:
        if stop:
            o = ["ret", stop[0]]
        elif out[0] == "ret":
            o = ["open"]
    a, b, items = res["obj"]
    # UnboundLocalError is a NameError (same normalisation as for outcomes): the class name reaches the log
    # through the context manager helper
    log = json.loads(json.dumps(res["log"]).replace('"UnboundLocalError"', '"NameError"'))
    return json.loads(json.dumps({"outcome": o, "log": log, "yields": ys,
                                  "obj": [a, b, sorted(items, key=repr)]}))


def norm_model(ans, gen, real_open):
    c = ans["ctl"]
    if c[0] == "ret":
        o = ["ret", _norm_val(c[1])]
    elif c[0] == "exc":
        e = c[1]
        if isinstance(e, dict) and "exc" in e:
            cls = e["exc"]
            arg = e["args"][0] if e["args"] else ""
            if cls == "PteraNameError":
                cls = "NameError"
            o = ["exc", cls, str(arg) if cls in ("NameError", "Boom", "Quit") else ""]
        else:
            o = ["exc", "?", json.dumps(e)]
    else:
        o = [c[0]]
    if gen and real_open:
        o = ["open"]
    a, b, items = ans["obj"]
    return {"outcome": o, "log": _norm_val(ans["log"]), "yields": _norm_val(ans["out"]),
            "obj": [_norm_val(a), _norm_val(b), sorted([[k, _norm_val(v)] for k, v in items], key=lambda kv: repr(kv[0]))]}


def unmodelled(ans):
    t = json.dumps(ans["ctl"]) + json.dumps(ans["log"])
    return "Unmodelled" in t or '"fatal"' in t or "unmodelled" in t


def closure_of(src, empty=False):
    """the function `f` of `src` as a closure: reads of GLOB1 become reads of a variable of an enclosing function —
    K1 (the model's host supplies the same cell: 31), or, with `empty`, K0, a variable the enclosing function never
    gets to bind: the cell is empty when `f` is called, reading it raises NameError where it is read"""
    name = "K0" if empty else "K1"
    body = src.replace("GLOB1", name)
    lines = body.rstrip("\n").split("\n")
    inner = "\n".join("    " + l if l else l for l in lines)
    if empty:
        return "def make_f():\n%s\n    return f\n    K0 = 30\nf = make_f()\n" % inner
    return "def make_f():\n    K1 = 31\n    K2 = 32\n%s\n    return f\nf = make_f()\n" % inner


def gen_program(rng, features=EXEC_FEATURES, weights=None):
    g = pylite.Gen(rng, features=features, weights=weights)
    gen = rng.random() < 0.3
    fn = g.function(generator=gen, size=rng.randrange(3, 14))
    src = pylite.render(fn)
    gen = gen and "yield" in src
    fn["generator"] = gen
    if rng.random() < 0.25 and "GLOB1" in src:
        # a closure: some reads of globals become reads of variables of an enclosing function (the model's host
        # supplies the same cells: K1 = 31, K2 = 32) — now and then of one whose cell is still empty
        src = closure_of(src, empty=rng.random() < 0.3)
    args, script, gscript = progrun.gen_inputs(rng, fn)
    if gen:
        gscript = [["next"]] + [op for op in (gscript or [])[1:] if op[0] in ("next", "send", "throw")]
    inp = []
    if gen:
        for op in gscript[1:]:
            inp.append(["send", None] if op[0] == "next" else op)
    return fn, src, gen, args, script, gscript, inp


def exec_leg(chk, n, probes=True, weights=None, tag="exec"):
    import ptera
    drv = chk.open_driver()
    rng = chk.rng
    stats = {"programs": 0, "plain_agree": 0, "plain_differ": 0, "unmodelled": 0, "refines_agree": 0,
             "refines_differ": 0, "probe_agree": 0, "probe_differ": 0, "in_theorem_fragment": 0}
    for i in range(n):
        fn, src, gen, args, script, gscript, inp = gen_program(rng, weights=weights)
        mod = progrun.make(src, "verif_m2_%s_%d" % (tag, i))
        f = getattr(mod, "f")
        try:
            fj = rewritecorr.model_input(f)
        except astjson.Unsupported:
            pyprog.drop_module(mod)
            continue
        stats["programs"] += 1
        if f.__code__.co_freevars:
            stats["closures"] = stats.get("closures", 0) + 1
        real = progrun.drive(mod, f, args, script, gscript)
        pyprog.drop_module(mod)
        req = {"op": "exec", "fn": fj, "cfg": [], "mode": "plain", "args": args, "script": script, "inp": inp,
               "fuel": 60}
        ans = drv.ask(req)
        if ans.get("core"):
            stats["in_theorem_fragment"] += 1
        if unmodelled(ans):
            stats["unmodelled"] += 1
            continue
        r = norm_real(real, gen)
        m = norm_model(ans, gen, r["outcome"] == ["open"])
        chk.count(("exec", src, json.dumps([args, script, gscript])), nontrivial=len(r["log"]) >= 2)
        replay = {"source": src, "args": args, "script": script, "gen_script": gscript}
        if r == m:
            stats["plain_agree"] += 1
        else:
            stats["plain_differ"] += 1
            diff = {k: [r[k], m[k]] for k in r if r[k] != m[k]}
            chk.violation("correspondence", "the model interpreter and CPython disagree on the untouched program: %s"
                          % json.dumps(diff)[:300], dict(replay, cpython=r, model=m))
            continue
        names = pylite.bound_names(fn)
        cfgs = [[[None, None]]]
        pool = names + ["GLOB1", "H"] + META + ["#loop_a", "#endloop_a"]
        cfgs.append([[rng.choice(pool), None] for _ in range(rng.randrange(1, 3))])
        for cfg in cfgs:
            ovr = None
            if names and rng.random() < 0.3:
                ovr = [rng.choice(names), rng.randrange(1, 5)]
            a1 = drv.ask(dict(req, cfg=cfg, mode="ref", override=ovr))
            a2 = drv.ask(dict(req, cfg=cfg, mode="instr", override=ovr))
            if a1 == a2:
                stats["refines_agree"] += 1
            else:
                stats["refines_differ"] += 1
                diff = {k: [a1[k], a2[k]] for k in a1 if a1[k] != a2[k]}
                chk.violation("correspondence", "model: the rewritten program and the reference semantics differ "
                              "(the executable statement of `instrument_refines`): %s" % json.dumps(diff)[:300],
                              dict(replay, cfg=cfg, override=ovr))
        if not probes:
            continue
        # (c) the reference semantics' events against a real probe
        cands = names + (["#value"] if not gen else []) + (["GLOB1"] if reads_global(src, "f", "GLOB1") else []) \
            + [x for x in f.__code__.co_freevars if x in ("K1", "K2")]
        if not cands:
            continue
        focus = rng.choice(cands)
        want = drv.ask(dict(req, cfg=[[focus, None]], mode="ref"))
        if unmodelled(want):
            continue
        wvals = [_norm_val(e[1]) for e in want["events"] if e[0] == focus]
        pmod = progrun.make(src, "verif_m2_%s_p%d" % (tag, i))
        try:
            with ptera.probing("f > %s" % focus, env=pmod.__dict__).values() as evs:
                progrun.drive(pmod, pmod.f, args, script, gscript)
            got = json.loads(json.dumps([progrun.plain(e[focus]) for e in evs]))
        except BaseException as e:  # noqa
            got = "activation/run failed: %s: %s" % (type(e).__name__, str(e)[:100])
        finally:
            pyprog.drop_module(pmod)
        if got == wvals:
            stats["probe_agree"] += 1
        else:
            stats["probe_differ"] += 1
            chk.violation("correspondence", "probing('f > %s') delivered %s; the reference semantics says %s" % (
                focus, str(got)[:120], str(wvals)[:120]), dict(replay, focus=focus, delivered=got, reference=wvals))
    chk.cov["correspondence"]["model_exec"] = stats
    return stats
