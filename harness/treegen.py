"""Call-tree workloads for the matching runtime (M3): a family of mutually calling functions whose
bodies are fixed sequences of slots (maybe-bind / maybe-call / maybe-raise) driven by a script, so
that every activation tree over the family can be realised, and the model's input (the tree of
interact() calls) is computed from the script alone."""
import json

import pyprog

VARS = ["a", "b", "c", "x", "y"]
TAGSETS = [None, None, ["T"], ["U"], ["T", "U"]]


class Family:
    """k functions f0..f{k-1}; function i has a fixed list of slots"""

    def __init__(self, rng, k=3, nslots=7, name="fam"):
        self.k = k
        self.slots = []     # per function: list of ("bind", var, tags) | ("call",) | ("gen",) | ("raise",) | ("decl", var, tags)
        src = ["from ptera import tag", "FUNS = []", "class Boom(Exception):\n    pass", "",
               "def hgen0():\n    i = 0\n    while True:\n        i = i + 1\n        yield i", "",
               "GEN = None", "",
               "def _adv():\n    global GEN\n    if GEN is None:\n        GEN = hgen0()\n    next(GEN)", ""]
        for i in range(k):
            mine = rng.sample(VARS, rng.randrange(2, 4))
            ret_tags = rng.choice([None, None, ["T"], ["U"], ["T", "U"]])
            slots = []
            for j in range(nslots):
                r = rng.random()
                if r < 0.5:
                    slots.append(("bind", rng.choice(mine), rng.choice(TAGSETS)))
                elif r < 0.89:
                    slots.append(("call",))
                elif r < 0.93:
                    # a suspended instrumented generator (started outside of everything) is advanced one step:
                    # invisible to every selector, and it must leave the handler context as it found it
                    slots.append(("gen",))
                elif r < 0.965:
                    slots.append(("raise",))
                else:
                    # a bare declaration that nothing supplies: the call fails there with ptera's name error (an
                    # activation that ends by raising, like the slot above) and NOTHING is bound — no handler may
                    # see a value for the variable
                    slots.append(("decl", rng.choice(mine), rng.choice([["T"], ["U"], ["T", "U"]])))
            # make sure every variable is bound somewhere and there are calls
            for v in mine:
                if not any(s[0] == "bind" and s[1] == v for s in slots):
                    slots.append(("bind", v, None))
            if not any(s[0] == "call" for s in slots):
                slots.insert(len(slots) // 2, ("call",))
            self.slots.append(slots)
            ann = "" if ret_tags is None else " -> %s" % " & ".join("tag." + t for t in ret_tags)
            src.append("def f%d(s)%s:" % (i, ann))
            for j, sl in enumerate(slots):
                if sl[0] == "bind":
                    a = "" if sl[2] is None else ": '%s'" % " & ".join("@" + t for t in sl[2])
                    src.append("    if s[%d] is not None:\n        %s%s = s[%d]" % (j, sl[1], a, j))
                elif sl[0] == "call":
                    src.append("    if s[%d] is not None:\n        FUNS[s[%d][0]](s[%d][1])" % (j, j, j))
                elif sl[0] == "gen":
                    src.append("    if s[%d] is not None:\n        _adv()" % j)
                elif sl[0] == "decl":
                    src.append("    if s[%d] is not None:\n        %s: '%s'" % (j, sl[1], " & ".join("@" + t for t in sl[2])))
                else:
                    src.append("    if s[%d] is not None:\n        raise Boom()" % j)
            src.append("    return s[%d]" % len(slots))
            src.append("")
            self.ret_tags = getattr(self, "ret_tags", []) + [ret_tags]
        src.append("FUNS.extend([%s])" % ", ".join("f%d" % i for i in range(k)))
        self.src = "\n".join(src) + "\n"
        self.mod = pyprog.make_module(self.src, name)
        self.funs = list(self.mod.FUNS)

    def tool(self):
        import ptera
        for f in self.funs:
            ptera.tooled.inplace(f)
        ptera.tooled.inplace(self.mod.hgen0)
        self.mod._adv()          # first step outside of every overlay and activation

    def infos(self):
        """FnInfo per function in the model's JSON shape, from __ptera_info__"""
        out = []
        for f in self.funs:
            info = f.__ptera_info__
            out.append({"vars": [[k, cat_json(v["annotation"])] for k, v in info.items()],
                        "ret": cat_json(f.__annotations__.get("return", None), is_ret=True)})
        return out

    def gen_script(self, rng, fi, budget):
        """script for function fi: tuple of slot values + return value; budget bounds total activations"""
        slots = self.slots[fi]
        vals = []
        raised = False
        for sl in slots:
            if raised:
                vals.append(None)
                continue
            if sl[0] == "bind":
                vals.append(rng.randrange(0, 6) if rng.random() < 0.75 else None)
            elif sl[0] == "gen":
                vals.append(1 if rng.random() < 0.6 else None)
            elif sl[0] == "call":
                if budget[0] > 0 and rng.random() < 0.6:
                    budget[0] -= 1
                    j = rng.randrange(self.k)
                    vals.append((j, self.gen_script(rng, j, budget)))
                else:
                    vals.append(None)
            else:
                if rng.random() < 0.15:
                    vals.append(1)
                    raised = True
                else:
                    vals.append(None)
        vals.append(rng.randrange(0, 6))
        return tuple(vals)

    def tree(self, fi, script):
        """the model's activation tree: (json, raises)"""
        items = [{"name": "#enter", "cat": ["enter"], "value": {"v": 1, "oid": 0}, "overridable": False},
                 {"name": "s", "cat": None, "value": {"v": -1, "oid": 0}}]
        raised = False
        decl = None
        for sl, val in zip(self.slots[fi], script):
            if val is None:
                continue
            if sl[0] == "bind":
                items.append({"name": sl[1], "cat": sl[2], "value": {"v": val, "oid": 0}})
            elif sl[0] == "call":
                sub, r = self.tree(val[0], val[1])
                items.append({"call": sub})
                if r:
                    raised = True
                    break
            elif sl[0] == "gen":
                continue
            elif sl[0] == "decl":
                decl = sl
                raised = True
                break
            else:
                raised = True
                break
        if raised:
            items.append({"name": "#error", "cat": None, "value": {"v": -2, "oid": 0}, "overridable": False})
        else:
            items.append({"name": "#value", "cat": None, "value": {"v": script[-1], "oid": 0}})
        items.append({"name": "#exit", "cat": ["exit"], "value": {"v": 1, "oid": 0}, "overridable": False})
        if decl is not None:
            # the interaction without a value is what ends the activation: the model's `interact` fails there with
            # ptera's name error (the accumulators have been looked up, nothing is logged). It is listed last because the
            # model stops at the failing item; nothing it does depends on the position among the meta events.
            items.append({"name": decl[1], "cat": decl[2], "value": None})
        elif raised:
            items.append({"name": "!raise", "cat": None, "value": None})
        return {"fn": fi, "items": items}, raised

    def fires_decl(self, fi, script):
        """-> (a bare declaration is executed, the activation ends by raising)"""
        for sl, val in zip(self.slots[fi], script):
            if val is None or sl[0] in ("bind", "gen"):
                continue
            if sl[0] == "call":
                d, r = self.fires_decl(val[0], val[1])
                if d or r:
                    return d, True
            elif sl[0] == "decl":
                return True, True
            else:
                return False, True
        return False, False

    def n_activations(self, script, fi):
        n = 1
        for sl, val in zip(self.slots[fi], script):
            if val is not None and sl[0] == "call":
                n += self.n_activations(val[1], val[0])
        return n


def cat_json(ann, is_ret=False):
    from ptera.tags import Tag, TagSet
    from ptera.utils import ABSENT
    if ann is None:
        return None
    if isinstance(ann, Tag):
        return [ann.name]
    if isinstance(ann, TagSet):
        return sorted(t.name for t in ann.members)
    if isinstance(ann, str) and is_ret and ann.startswith("@"):
        return "other"       # a raw string return annotation is not a Tag object
    return "other"


# ---------------------------------------------------------------------------
# selectors: ptera's resolved selector object -> model JSON
# ---------------------------------------------------------------------------

def pred_json(fn):
    from ptera import tools
    if isinstance(fn, tools.Range):
        if fn.modulo is None:
            return {"p": "between", "a": fn.start, "b": fn.end}
        return {"p": "every", "n": fn.modulo, "start": fn.start or 0, "stop": fn.end}
    qn = getattr(fn, "__qualname__", "")
    for nm in ("lt", "gt", "lte", "gte"):
        if qn.startswith(nm + "."):
            return {"p": nm, "a": fn.__closure__[0].cell_contents}
    raise ValueError("unmodelled predicate %r" % fn)


def el_json(e):
    from ptera.selector import MatchFunction
    from ptera.utils import ABSENT
    if e.value is ABSENT:
        value = None
    elif isinstance(e.value, MatchFunction):
        value = dict(c="pred", **pred_json(e.value.fn))
    elif isinstance(e.value, int):
        value = {"c": "eq", "v": e.value, "oid": 0}
    elif type(e.value).__name__ == "_Receiver":
        value = {"c": "is", "v": getattr(e.value.obj, "v", 0), "oid": id(e.value.obj) % 1000003}
    else:
        value = {"c": "eq", "v": getattr(e.value, "v", 0), "oid": id(e.value) % 1000003}
    return {"name": e.name, "category": None if e.category is None else e.category.name,
            "capture": e.capture, "focus": 1 in e.tags, "tag2": 2 in e.tags, "value": value}


def sel_json(sel, funs):
    fn = sel.element.name
    return {"fn": None if fn is None else funs.index(fn),
            "fcat": None if sel.element.category is None else sel.element.category.name,
            "captures": [el_json(c) for c in sel.captures],
            "children": [sel_json(c, funs) for c in sel.children],
            "immediate": sel.immediate}


def snap_json(args):
    """dict capture -> Capture object  =>  canonical JSON (keys sorted by json.dumps(sort_keys))"""
    return {k: {"names": list(c.names), "values": [val_json(v) for v in c.values]} for k, c in args.items()}


def val_json(v):
    if isinstance(v, bool):
        return {"v": int(v), "oid": 0}
    if isinstance(v, int):
        return {"v": v, "oid": 0}
    if isinstance(v, tuple):
        return {"v": -1, "oid": 0}
    if isinstance(v, BaseException):
        return {"v": -2, "oid": 0}
    return {"v": getattr(v, "v", -3), "oid": id(v) % 1000003}


# ---------------------------------------------------------------------------
# selector strings over a family
# ---------------------------------------------------------------------------

def fn_vars(fam, fi):
    out = []
    for sl in fam.slots[fi]:
        if sl[0] == "bind" and sl[1] not in out:
            out.append(sl[1])
    return out


def gen_capture(rng, fam, fi, conds=True, tags=True, generic=True):
    vs = fn_vars(fam, fi)
    r = rng.random()
    if generic and tags and r < 0.15:
        return "$%s:@%s" % (rng.choice(["v", "w"]), rng.choice(["T", "U"]))
    v = rng.choice(vs) if rng.random() < 0.9 else rng.choice(VARS)
    if r < 0.25:
        return "%s as %s" % (v, rng.choice(["p", "q"]))
    if tags and r < 0.35:
        return "%s:@%s" % (v, rng.choice(["T", "U"]))
    if conds and r < 0.5:
        return "%s=%d" % (v, rng.randrange(0, 6))
    if conds and r < 0.6:
        return "%s~%s" % (v, rng.choice(["every(2)", "every(3, 1)", "between(1, 4)", "lt(3)", "gte(2)"]))
    if r < 0.65:
        return rng.choice(["#value", "#enter", "#value as r"])
    return v


def gen_level(rng, fam, depth, focus, **kw):
    """-> selector text in the `!` style: fN(caps, children, !focus)"""
    fi = rng.randrange(fam.k)
    r = rng.random()
    fname = "f%d" % fi if r < 0.9 else "*:@%s" % rng.choice(["T", "U"])
    parts = [gen_capture(rng, fam, fi, **kw) for _ in range(rng.choice([0, 0, 1, 1, 2]))]
    if depth > 0:
        for _ in range(rng.choice([0, 0, 1])):
            parts.append(gen_level(rng, fam, depth - 1, False, **kw))
    if focus:
        if depth > 0 and rng.random() < 0.6:
            parts.append(gen_level(rng, fam, depth - 1, True, **kw))
        else:
            parts.append("!" + gen_capture(rng, fam, fi, **kw))
    if r >= 0.9:
        return "(%s)(%s)" % (fname, ", ".join(parts))
    return "%s(%s)" % (fname, ", ".join(parts))


# ---------------------------------------------------------------------------
# selectors derived from a call tree: a chain of live activations, captures that are bound on the way, and
# sibling calls that happen anywhere under the chain before the focus is bound (also inside deeper levels)
# ---------------------------------------------------------------------------

def _activation(fam, fi, script):
    """-> {"fn", "binds": [(slot, var)], "calls": [(slot, node)]} for what actually runs"""
    node = {"fn": fi, "binds": [], "calls": []}
    for j, (sl, val) in enumerate(zip(fam.slots[fi], script)):
        if val is None:
            continue
        if sl[0] == "bind":
            node["binds"].append((j, sl[1]))
        elif sl[0] == "call":
            node["calls"].append((j, _activation(fam, val[0], val[1])))
        elif sl[0] == "gen":
            continue
        else:
            break
    return node


def _descendants(node):
    out = []
    for _, c in node["calls"]:
        out.append(c)
        out.extend(_descendants(c))
    return out


def directed_selector(rng, fam, fi, script, depth=None):
    """selector text matching (a chain in) this call tree, or None when the tree is too small"""
    root = _activation(fam, fi, script)
    chain = [root]
    d = rng.randrange(1, 4) if depth is None else depth
    while len(chain) <= d:
        below = _descendants(chain[-1])
        if not below:
            break
        chain.append(rng.choice(below))
    last = chain[-1]
    if not last["binds"]:
        return None
    focus = rng.choice(last["binds"])[1]
    text = "f%d(!%s)" % (last["fn"], focus)
    for node in reversed(chain[:-1]):
        parts = []
        used = {focus}
        for _, v in node["binds"]:
            if v not in used and rng.random() < 0.5:
                parts.append(v)
                used.add(v)
        sibs = [n for n in _descendants(node) if n["binds"] and n not in chain]
        if sibs and rng.random() < 0.7:
            sb = rng.choice(sibs)
            v = rng.choice(sb["binds"])[1]
            if v not in used:
                parts.append("f%d(%s)" % (sb["fn"], v))
                used.add(v)
        parts.append(text)
        text = "f%d(%s)" % (node["fn"], ", ".join(parts))
    return text
