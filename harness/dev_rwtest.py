import sys, random, json, collections
sys.path.insert(0, '/verif/harness')
import core, pylite, progrun, pyprog, rewritecorr, astjson
drv = core.Driver()
rng = random.Random(int(sys.argv[1]) if len(sys.argv) > 1 else 0)
N = int(sys.argv[2]) if len(sys.argv) > 2 else 200
stats = collections.Counter()
shown = 0
for i in range(N):
    g = pylite.Gen(rng, weights={"decl": 1})
    gen = rng.random() < 0.3
    fn = g.function(generator=gen, size=rng.randrange(3, 14))
    annp = {p: rng.choice(["int", "'@T'", "'@T & @U'"]) for p in fn["params"] if rng.random() < 0.3}
    src = pylite.HELPERS + "\n" + pylite.render(fn, ann_params=annp)
    mod = pyprog.make_module(src, "rw_%d" % i)
    f = getattr(mod, "f")
    names = pylite.bound_names(fn) + ["GLOB1", "H", "O", "#value", "#enter", "#exit", "#error", "#yield", "#receive", "#loop_a", "#endloop_a", "#loop_b", "O.a", "zzz"]
    r = rng.random()
    if r < 0.3:
        cfg = [(None, None)]
    elif r < 0.4:
        cfg = [(None, rng.choice(["T", "U", "enter", "exit"]))]
    elif r < 0.45:
        cfg = []
    else:
        cfg = [(rng.choice(names), rng.choice([None, None, None, "T", "U"])) for _ in range(rng.randrange(1, 4))]
    try:
        d = rewritecorr.compare(drv, f, cfg)
    except astjson.Unsupported as e:
        stats["unsupported:" + str(e)[:40]] += 1
        continue
    finally:
        pyprog.drop_module(mod)
    if d is None:
        stats["agree"] += 1
    else:
        stats["differ"] += 1
        if shown < 4:
            shown += 1
            print("CFG", cfg)
            print(pylite.render(fn, ann_params=annp))
            print(json.dumps(d)[:1500])
print(dict(stats))
