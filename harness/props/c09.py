"""C09 — a suspended generator does not leak its call-path context to its caller.

proof leg      Props/C09.lean (driver context invariant under next/close/drop, overlays exact, generator
               body runs under the collection of its entry) over model M6-generators
correspondence model vs implementation after every step of generated histories: the context every
               driver call and every generator segment runs under (which overlays' handlers fire, which
               'generator as ancestor' selectors fire)
oracle         HandlerCollection.current is the same object/content before and after every generator
               operation; gen > g > a never fires for the driver's own calls; an overlay that has ended
               never receives anything again
"""
import gc
import json

import core
import pyprog

SRC = '''
def g(x):
    a = x * 2
    return a

def gen0(n):
    for i in range(n):
        v = g(i)
        yield v

def gen1(n):
    for i in range(n):
        v = g(i + 10)
        w = yield v

def gen2(n):
    for i in range(n):
        v = g(i + 20)
        u = w = yield v

def gen3(n):
    for i in range(n):
        v = g(i + 30)
        w: int = yield v
        if (t := (yield g(i + 31))) is not None:
            pass

def sub4(i):
    v = g(i + 40)
    yield v

def gen4(n):
    for i in range(n):
        r = yield from sub4(i)

def gen5(n):
    for i in range(n):
        v = g(i + 50)
        yield from [v]

def gen6(n):
    for i in range(n):
        v = g(i + 60)
        try:
            yield v
        except GeneratorExit:
            return

def gen7(n):
    total = 0
    for i in range(n):
        total += (yield g(i + 70)) or 0

def gen8(n):
    d = {}
    for i in range(n):
        d[(yield g(i + 80))] = i

def gen9(n):
    for i in range(n):
        def inner(q=(yield g(i + 90))):
            return q
'''
NKINDS = 10
# the selector 'generator as ancestor' of each kind (kind 7 captures a variable of the generator, which makes
# its augmented assignment an instrumented statement)
ANCESTOR = {k: "gen%d > g > a" % k for k in range(NKINDS)}
ANCESTOR[7] = "gen7(total) > g > a"


def run_history(chk, mod, drv, rng, stats):
    from ptera import BaseOverlay, Immediate
    from ptera.selector import select
    from ptera.overlay import HandlerCollection, autotool
    env = mod.__dict__
    sels = {"plain": select("g > a", env=env)}
    for k in range(NKINDS):
        sels[k] = select(ANCESTOR[k], env=env)
    fired = []      # (overlay, which)
    ngens = rng.randrange(1, 4)
    lens = [rng.randrange(0, 4) for _ in range(ngens)]
    kinds = [rng.randrange(NKINDS) for _ in range(ngens)]
    gens = [None] * ngens
    started = [False] * ngens
    overlays = {}
    next_ov = [0]
    hist = []
    obs = []

    def mk_overlay(o):
        hs = []
        for which, sel in sels.items():
            hs.append(Immediate(sel, trigger=lambda args, o=o, which=which: fired.append((o, which))))
        return BaseOverlay(*hs)

    def snapshot():
        c = HandlerCollection.current.get()
        return None if c is None else [(id(s), id(a)) for s, a in c.handler_pairs]

    def observed():
        """context the last call of g ran under, from what fired"""
        ovs = sorted({o for o, w in fired if w == "plain"})
        inside = sorted({w for o, w in fired if w != "plain"})
        return {"overlays": ovs, "inside": inside}

    for s in sels.values():
        autotool(s)
    ended = set()
    try:
        for gi in range(ngens):
            gens[gi] = getattr(mod, "gen%d" % kinds[gi])(lens[gi])
        n = rng.randrange(5, 16)
        for _ in range(n):
            r = rng.random()
            del fired[:]
            before = snapshot()
            if r < 0.18:
                o = next_ov[0]
                next_ov[0] += 1
                overlays[o] = mk_overlay(o)
                overlays[o].__enter__()
                op = {"op": "enter", "o": o}
                out = None
            elif r < 0.32 and overlays:
                o = rng.choice(sorted(overlays))        # any order: overlays as global probes use them
                overlays.pop(o).__exit__(None, None, None)
                ended.add(o)
                op = {"op": "leave", "o": o}
                out = None
            elif r < 0.62:
                gi = rng.randrange(ngens)
                op = {"op": "next", "g": gi}
                ran = False
                if gens[gi] is not None:
                    try:
                        next(gens[gi])
                        ran = True
                    except StopIteration:
                        ran = bool(fired) or False
                        gens[gi] = gens[gi]
                out = observed() if fired else None
                after = snapshot()
                if after != before:
                    chk.violation("oracle", "next(generator %d) changed the driver's handler context" % gi,
                                  {"history": hist + [op], "lens": lens, "kinds": kinds})
            elif r < 0.72:
                gi = rng.randrange(ngens)
                op = {"op": "close", "g": gi}
                if gens[gi] is not None:
                    gens[gi].close()
                out = None
                if snapshot() != before:
                    chk.violation("oracle", "closing generator %d changed the driver's handler context" % gi,
                                  {"history": hist + [op], "lens": lens, "kinds": kinds})
            elif r < 0.8:
                gi = rng.randrange(ngens)
                op = {"op": "drop", "g": gi}
                gens[gi] = None
                gc.collect()
                out = None
                if snapshot() != before:
                    chk.violation("oracle", "dropping generator %d changed the driver's handler context" % gi,
                                  {"history": hist + [op], "lens": lens, "kinds": kinds})
            else:
                op = {"op": "call"}
                mod.g(50)
                out = observed()
                if out["inside"]:
                    chk.violation("oracle", "the driver's own call of g fired the selector gen%s > g > a (a generator "
                                  "is suspended, the driver is not inside it)" % out["inside"],
                                  {"history": hist + [op], "lens": lens, "kinds": kinds})
                if sorted(out["overlays"]) != sorted(overlays):
                    chk.violation("oracle", "driver call observed by overlays %s, installed are %s" % (
                        out["overlays"], sorted(overlays)), {"history": hist + [op], "lens": lens, "kinds": kinds})
            hist.append(op)
            obs.append(out)
    finally:
        for o in list(overlays):
            overlays.pop(o).__exit__(None, None, None)
        for gi in range(ngens):
            if gens[gi] is not None:
                gens[gi].close()
        for s in sels.values():
            autotool(s, undo=True)
        HandlerCollection.current.set(None)
    # ---- model: generator kinds map gen-kind ids; `inside` holds generator *function* ids in the observation
    # (a generator of kind 3 yields twice per iteration, with one call of g before each yield)
    req = {"op": "ctx", "gens": [l * 2 if k == 3 else l for l, k in zip(lens, kinds)], "ops": hist}
    trace = drv.ask(req)
    stats["histories"] += 1
    chk.count(json.dumps([lens, kinds, hist]), nontrivial=any(h["op"] == "next" for h in hist) and any(
        h["op"] in ("call", "close", "drop", "leave") for h in hist))
    for h in hist:
        chk.dist(h["op"])
    for op, o_impl, m in zip(hist, obs, trace):
        mo = m["out"]
        if mo is not None:
            mo = {"overlays": sorted(mo["overlays"]), "inside": sorted({kinds[g] for g in mo["inside"]})}
            if op["op"] == "next" and not mo["overlays"]:
                mo = None       # no overlay installed in the generator's collection: nothing can be observed
        if op["op"] in ("call", "next") and mo != o_impl:
            stats["disagreements"] += 1
            chk.violation("correspondence", "context model and implementation differ at %s" % json.dumps(op),
                          {"history": hist, "lens": lens, "kinds": kinds, "model": mo, "impl": o_impl})
            break
    if stats["histories"] % 60 == 1:
        chk.sample({"gens": list(zip(kinds, lens)), "history": hist})


def run(chk):
    drv = chk.open_driver()
    mod = pyprog.make_module(SRC, "verif_c09")
    chk.cov["rule"] = (
        "histories of 5-15 operations over 1-3 instrumented generators (0-3 yields each; ten generator "
        "functions calling the same plain function g: plain yield, yield as the value of a binding / chained / "
        "annotated / walrus / augmented assignment, `yield from` a generator and a list, a generator that swallows "
        "GeneratorExit) and overlays carrying g > a and genK > g > a for each kind: "
        "enter / leave overlays in any order, next, close, drop (+gc), driver calls of g; non-trivial = a "
        "generator is advanced and later something else happens (driver call, close, drop, overlay left)")
    stats = {"histories": 0, "disagreements": 0}
    for _ in range(300 if chk.tier == "quick" else 6000):
        run_history(chk, mod, drv, chk.rng, stats)
    chk.cov["correspondence"]["histories"] = stats
    chk.assumptions += [
        "an exception thrown into a suspended generator (gen.throw) resumes it without the resume hook: the handling segment runs under the driver's context; not in the property's operation set",
    ]
    pyprog.drop_module(mod)


def replay(chk, path):
    data = json.load(open(path))
    for v in data.get("violations", []) + data.get("model_disagreements", []):
        print("replay:", v["what"][:300]); print("  ", json.dumps(v["replay"])[:600])
    return 1 if data.get("violations") else 0
