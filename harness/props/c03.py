"""C03 — call-path selectors fire once per way the path matches the live call stack.

proof leg      Props/C03.lean (embedding-count invariant of the pending collection, transferred to
               the model of HandlerCollection.proceed)
correspondence model M3 (runAll) vs BaseOverlay(Immediate(selector, trigger)) on generated families
               of mutually calling tooled functions: event lists equal, order included
oracle         embeddings and payloads recomputed from the call tree by an independent reference
"""
import json

import core
import treegen
import treecorr
import treeref


def mk_env(fam):
    from ptera import tools
    env = dict(fam.mod.__dict__)
    env.update(every=tools.every, between=tools.between, lt=tools.lt, gt=tools.gt, lte=tools.lte, gte=tools.gte)
    return env


def run_cases(chk, n_fam, n_cases, gen_handlers, oracle=None, label="tree"):
    rng = chk.rng
    drv = chk.open_driver()
    stats = {"cases": 0, "events": 0, "activations": 0, "disagreements": 0, "oracle_checked": 0}
    for famno in range(n_fam):
        fam = treegen.Family(rng, k=3, name="%s_fam%d" % (chk.prop, famno))
        fam.tool()
        env = mk_env(fam)
        infos = fam.infos()
        for _ in range(n_cases):
            roots = []
            for _ in range(rng.choice([1, 1, 2])):
                fi = rng.randrange(fam.k)
                roots.append((fi, fam.gen_script(rng, fi, [rng.randrange(0, 10)])))
            import inspect
            if len(inspect.signature(gen_handlers).parameters) >= 3:
                hs = gen_handlers(rng, fam, roots)
            else:
                hs = gen_handlers(rng, fam)
            # a bare declaration that nothing supplies ends the activation with ptera's name error (the model's
            # interaction without a value); an overriding handler could supply the variable and let the call go
            # on — those combinations are left out
            decl = False
            for fi, script in roots:
                d, r = fam.fires_decl(fi, script)
                decl = decl or d
                if r:
                    break
            if decl and any(h.get("intercept") for h in hs):
                chk.dist("left-out:declaration+override")
                continue
            try:
                evs, err, hj = treecorr.run_impl(fam, hs, env, roots)
            except Exception as e:  # a selector the implementation refuses: not a case
                chk.dist("refused:" + type(e).__name__)
                continue
            if decl:
                chk.dist("declaration-not-supplied")
            req = treecorr.model_request(fam, hj, roots)
            m = drv.ask(req)
            nact = sum(fam.n_activations(s, fi) for fi, s in roots)
            stats["cases"] += 1
            stats["events"] += len(evs)
            stats["activations"] += nact
            key = treecorr.canon([[h["selector"] for h in hs], roots])
            chk.count(key, nontrivial=len(evs) > 0 and nact > 1)
            chk.dist("depth:%d" % min(nact, 12))
            if treecorr.canon(m["events"]) != treecorr.canon(evs) or m["error"] != err:
                stats["disagreements"] += 1
                chk.violation("correspondence", "model M3 and implementation deliver different events",
                              {"family_src": fam.src, "handlers": hs, "roots": roots,
                               "impl_events": evs[:10], "model_events": m["events"][:10],
                               "impl_error": err, "model_error": m["error"]})
            if oracle:
                # the run stops at the first root call that raises: the reference sees the same trees
                ran = []
                for (fi, script), t in zip(roots, req["trees"]):
                    ran.append(t)
                    if fam.tree(fi, script)[1]:
                        break
                oracle(chk, fam, infos, hs, hj, roots, ran, evs, err, stats)
            if stats["cases"] % 97 == 0:
                chk.sample({"selectors": [h["selector"] for h in hs], "roots": roots, "events": len(evs)})
        pyprog_drop(fam)
    chk.cov["correspondence"][label] = stats
    return stats


def pyprog_drop(fam):
    import pyprog
    pyprog.drop_module(fam.mod)


def gen_handlers(rng, fam, roots=None):
    hs = []
    for _ in range(rng.choice([1, 1, 1, 2])):
        sel = None
        if roots and rng.random() < 0.45:
            # derived from the call tree that will run: chains of live activations with context captures and
            # sibling calls anywhere below them (also inside deeper levels of the chain)
            fi, script = rng.choice(roots)
            sel = treegen.directed_selector(rng, fam, fi, script)
        if sel is None:
            sel = treegen.gen_level(rng, fam, rng.randrange(0, 3), True, conds=rng.random() < 0.2,
                                    tags=rng.random() < 0.3)
        hs.append({"kind": "immediate", "selector": sel, "trigger": True})
    return hs


def oracle(chk, fam, infos, hs, hj, roots, trees, evs, err, stats):
    if err is not None:
        return
    for hi, (h, j) in enumerate(zip(hs, hj)):
        sel = j["sel"]
        if not treeref.supported(sel):
            continue
        want = treeref.immediate_events(sel, trees, infos)
        got = [{k: c["values"][0]["v"] for k, c in e["args"].items()} for e in evs
               if e["h"] == hi and e["ev"] == "trigger"]
        stats["oracle_checked"] += 1
        pos = 0
        ok = sum(len(g) for g in want) == len(got)
        if ok:
            for g in want:
                sl = got[pos:pos + len(g)]
                pos += len(g)
                if sorted(map(treecorr.canon, sl)) != sorted(map(treecorr.canon, g)):
                    ok = False
                    break
        if not ok:
            chk.violation("oracle", "selector %r: events differ from the embeddings of the path into the live "
                          "stack (got %d events, reference %d)" % (h["selector"], len(got), sum(len(g) for g in want)),
                          {"family_src": fam.src, "handlers": [h], "roots": roots, "got": got[:12],
                           "reference": [p for g in want for p in g][:12]})


def run(chk):
    chk.cov["rule"] = (
        "families of 3 mutually calling tooled functions with random slot bodies (bind / call / raise), "
        "random scripts (direct, indirect, recursive calls, repeated siblings, up to ~11 activations), 1-2 "
        "Immediate handlers with generated chain/sibling selectors of depth <= 3; a case is (selectors, "
        "scripts); non-trivial = at least one event and more than one activation")
    nf, nc = (4, 150) if chk.tier == "quick" else (24, 500)
    run_cases(chk, nf, nc, gen_handlers, oracle)
    chk.assumptions += [
        "the payload statement (latest values from precisely the matched activations, sibling values only from calls under the matched activation) is checked by model correspondence and the reference oracle; the Lean theorems cover the number of firings for chain selectors of any length over any stack",
        "the reference oracle covers selectors without value conditions and with distinct capture names",
    ]


def replay(chk, path):
    data = json.load(open(path))
    import pyprog
    bad = 0
    for v in data.get("violations", []) + data.get("model_disagreements", []):
        r = v["replay"]
        mod = pyprog.make_module(r["family_src"], "replay_fam")
        import ptera
        for f in mod.FUNS:
            ptera.tooled.inplace(f)
        print("replay:", [h["selector"] for h in r["handlers"]], r["roots"])
        bad += 1
    return 1 if bad else 0
