"""C04 — overriding a focus variable is equivalent to substituting the assigned value.

proof leg      Props/C04.lean (runtime half over M3: last answering override wins, declining leaves the
               value, closure variables are refused, what is logged is the substituted value)
correspondence M3 vs implementation on call trees with nested overriding handlers (run in C03/C12 too)
oracle         generated programs run under overriding probes (constant, context-dependent, conditional;
               one or two nested overrides plus a plain probe) vs the generator's SUBSTITUTED TWIN: the
               source in which every binding of the focus stores what the override function answers
"""
import json

import core
import m2corr
import pylite
import progrun
import pyprog

TWIN_EXTRA = '''
OVERRIDES = []      # outermost first; each: function(tentative, ctx_dict) -> value or DECLINE
DECLINE = object()

def SUBST(name, tentative, loc):
    val = tentative
    for ov in OVERRIDES:            # the most recently activated one that answers wins
        r = ov(tentative, loc)
        if r is not DECLINE:
            val = r
    return val
'''


def make_override(kind, ctxvar, k):
    """-> f(tentative, ctx) for the twin; ctx = dict of current values (locals / captured data)"""
    def const(t, ctx):
        return 700 + k

    def contextual(t, ctx):
        c = ctx.get(ctxvar)
        return (c if isinstance(c, int) and not isinstance(c, bool) else 1) + 50 + k

    def conditional(t, ctx):
        if isinstance(t, int) and not isinstance(t, bool) and t % 2 == 0:
            return t + 1000 + k
        return None
    return {"const": const, "contextual": contextual, "conditional": conditional}[kind]


def run_case(chk, fn, src, focus, ctxvar, kinds, args, script, gscript, stats, shapes=None):
    import ptera
    from ptera import ABSENT
    ovs = [make_override(kd, ctxvar, i) for i, kd in enumerate(kinds)]
    # ---- twin
    twin_src = pylite.render(fn, twin=True, subst=(focus, "SUBST"))
    tmod = pyprog.make_module(pylite.HELPERS + TWIN_EXTRA + twin_src, "verif_c04_twin")
    tmod.OVERRIDES[:] = [(lambda t, loc, ov=ov: (lambda r: tmod.DECLINE if r is None else r)(ov(t, loc))) for ov in ovs]
    want = progrun.drive(tmod, getattr(tmod, fn["name"]), args, script, gscript)
    want_stream = [progrun.plain(v) for n, v in tmod.BLOG if n == focus] if "." not in focus else None
    pyprog.drop_module(tmod)
    # ---- implementation
    # the overridden function may be reached through a wrapper: an override can then be written with a longer
    # call path (outer_w > f > x); which override wins must only depend on the order of activation
    shapes = shapes or ["direct"] * len(ovs)
    via_wrapper = "path" in shapes
    mod = progrun.make(src + "\ndef outer_w(*a):\n    return %s(*a)\n" % fn["name"], "verif_c04_impl")
    sel = "%s(%s) > %s" % (fn["name"], ctxvar, focus) if ctxvar else "%s > %s" % (fn["name"], focus)
    plain_stream = []
    try:
        probes = []
        for ov, shape in zip(ovs, shapes):
            p = ptera.probing(("outer_w > " + sel) if shape == "path" else sel, env=mod.__dict__, overridable=True)

            def setter(data, ov=ov):
                r = ov(data.get(focus), data)
                return ABSENT if r is None else r
            if chk.rng.random() < 0.4:
                # the same override written as a filtered stream: it declines by not reaching the end of the pipe
                p.filter(lambda data, ov=ov: ov(data.get(focus), data) is not None).override(
                    lambda data, ov=ov: ov(data.get(focus), data))
                chk.dist("override-form:filtered-stream")
            else:
                p.override(setter)
                chk.dist("override-form:setter")
            probes.append(p)
        pp = ptera.probing("%s > %s" % (fn["name"], focus), env=mod.__dict__)
        pp.subscribe(lambda d: plain_stream.append(progrun.plain(d[focus])))
        # the plain probe is activated between the two overriding ones (inside the first, outside the second)
        order = probes[:1] + [pp] + probes[1:]
        for p in order:
            p.__enter__()
        try:
            got = progrun.drive(mod, mod.outer_w if via_wrapper else getattr(mod, fn["name"]), args, script, gscript)
        finally:
            for p in reversed(order):
                p.__exit__(None, None, None)
    except BaseException as e:  # noqa
        got = {"activation_error": [type(e).__name__, str(e)[:120]]}
    pyprog.drop_module(mod)
    stats["cases"] += 1
    nsub = sum(1 for e in (want_stream or []))
    chk.count(src + sel + json.dumps([kinds, args, script, gscript]), nontrivial=bool(want_stream))
    for kd in kinds:
        chk.dist("override:" + kd)
    for sh in shapes:
        chk.dist("selector-shape:" + sh)
    replay = {"source": src, "selector": sel, "overrides": kinds, "selector_shapes": shapes, "args": args, "script": script,
              "gen_script": gscript, "twin": want, "overridden": got}
    if got != want:
        diff = "; ".join("%s: %s vs %s" % (k, str(want[k])[:80], str(got.get(k))[:80]) for k in want if got.get(k) != want[k]) \
            if "activation_error" not in got else str(got)
        chk.violation("oracle", "override %s on %r: the call does not behave as the program with the substituted "
                      "bindings (%s)" % (kinds, sel, diff[:220]), replay)
    elif want_stream is not None and plain_stream != want_stream:
        chk.violation("oracle", "a non-overriding probe on %s saw %r, the substituted values are %r" % (
            focus, plain_stream[:8], want_stream[:8]), replay)


def closures(chk, stats):
    """a variable captured from an enclosing closure is never silently overridden"""
    import ptera
    from ptera.interpret import OverrideException
    src = ("def outer(k):\n    def f(x):\n        a = x + k\n        return a\n    return f\n\nf = outer(5)\n")
    mod = pyprog.make_module(src, "verif_c04_closure")
    chk.count(("closure",))
    try:
        with ptera.probing("f > k", env=mod.__dict__, overridable=True) as p:
            p.override(100)
            r = mod.f(1)
        chk.violation("oracle", "overriding the closure variable k was accepted silently (f(1) = %r)" % r, {"source": src})
    except OverrideException:
        pass
    except Exception as e:
        chk.violation("oracle", "overriding a closure variable raised %s instead of being reported as an override error" % type(e).__name__, {"source": src})
    with ptera.probing("f > k", env=mod.__dict__).values() as vs:
        r = mod.f(1)
    if r != 6 or list(vs) != [{"k": 5}]:
        chk.violation("oracle", "a plain probe on a closure variable changed the call: %r %r" % (r, list(vs)), {"source": src})
    pyprog.drop_module(mod)
    # … also when the function re-binds the variable of the enclosing function itself
    src2 = ("def outer():\n    n = 1\n    def bump(k):\n        nonlocal n\n        n = n + k\n        return n\n"
            "    return bump, (lambda: n)\n\nbump, peek = outer()\n")
    mod = pyprog.make_module(src2, "verif_c04_closure2")
    chk.count(("closure", "nonlocal"))
    try:
        with ptera.probing("bump > n", env=mod.__dict__, overridable=True) as p:
            p.override(100)
            r = mod.bump(1)
        chk.violation("oracle", "overriding the closure variable n (re-bound through nonlocal) was accepted silently: "
                      "bump(1) = %r, the enclosing variable is now %r" % (r, mod.peek()), {"source": src2})
    except OverrideException:
        pass
    except Exception as e:
        chk.violation("oracle", "overriding a closure variable raised %s instead of being reported as an override error" % type(e).__name__, {"source": src2})
    pyprog.drop_module(mod)


def interrupted_emission(chk, rng):
    """a subscriber of the overriding probe raises while an event is being delivered (the exception leaves the
    probed call, the caller catches it): later bindings are overridden, or left alone, on their own merits"""
    import ptera
    from ptera import ABSENT
    src = "def f(x):\n    a = x * 2\n    b = a + 1\n    return b\n"
    n = 6 if chk.tier == "quick" else 60
    for i in range(n):
        mod = pyprog.make_module(src, "verif_c04_interrupted")
        limit = rng.randrange(2, 12)
        xs = [rng.randrange(0, 9) for _ in range(rng.randrange(3, 7))]
        boom_first = rng.random() < 0.5

        def boom(data):
            if data["a"] > limit:
                raise mod_error("subscriber")
        mod_error = type("SubscriberError", (Exception,), {})
        got = []
        try:
            p = ptera.probing("f > a", env=mod.__dict__, overridable=True)
            if boom_first:
                p.subscribe(boom)
            if rng.random() < 0.5:
                p.override(lambda data: 1000 if data["a"] > limit else ABSENT)
            else:
                # the same conditional override as a filtered stream: it declines by not reaching the end of the pipe
                p.filter(lambda data: data["a"] > limit).override(1000)
            if not boom_first:
                p.subscribe(boom)
            with p:
                for x in xs:
                    try:
                        got.append(mod.f(x))
                    except mod_error:
                        got.append("raised")
        except Exception as e:
            got = "failed: %s: %s" % (type(e).__name__, e)
        want = ["raised" if x * 2 > limit else x * 2 + 1 for x in xs]
        chk.count(("interrupted", limit, tuple(xs), boom_first), nontrivial="raised" in want and want[-1] != "raised")
        chk.dist("interrupted-emission")
        if got != want:
            chk.violation("oracle", "override of a (1000 when a > %d) with a subscriber that raises for the same events: "
                          "calls f(x) for x in %s give %s, expected %s" % (limit, xs, got, want),
                          {"source": src, "limit": limit, "args": xs, "raiser_subscribed_first": boom_first,
                           "got": got, "want": want})
        pyprog.drop_module(mod)


TSRC = "def f(x):\n    a = x + 1\n    b = a * 2\n    c = b - x\n    return (a, b, c)\n"


def tooled_with_probes(chk, rng):
    """a function tooled once and for all (@tooled / tooled.inplace), an overlay that overrides one of its variables,
    and plain probes on the same or on OTHER variables, nested either way: the call behaves as the program with the
    substituted binding, and the probes see the substituted values"""
    import ptera
    n = 12 if chk.tier == "quick" else 200
    for i in range(n):
        mod = pyprog.make_module(TSRC, "verif_c04_tooled")
        how = rng.choice(["tooled", "inplace"])
        f = ptera.tooled(mod.f) if how == "tooled" else ptera.tooled.inplace(mod.f)
        env = {"f": f}
        ov, val = rng.choice(["a", "b"]), rng.randrange(100, 200)
        pv = rng.choice(["a", "b", "c"])
        x = rng.randrange(0, 9)
        tweak_outside = rng.random() < 0.5

        def ref():
            a = val if ov == "a" else x + 1
            b = val if ov == "b" else a * 2
            c = b - x
            return (a, b, c), {"a": a, "b": b, "c": c}[pv]
        want_ret, want_seen = ref()
        seen = []
        try:
            tw = ptera.Overlay.tweaking({"f > %s" % ov: val})
            pr = ptera.probing("f > %s" % pv, env=env)
            pr.subscribe(lambda d: seen.append(d[pv]))
            # the overlay refers to the function through the same environment
            tw = ptera.Overlay.tweaking({ptera.selector.select("f > %s" % ov, env=env): val})
            first, second = (tw, pr) if tweak_outside else (pr, tw)
            with first:
                with second:
                    got = f(x)
            after = f(x)
        except Exception as e:
            got, after = "failed: %s: %s" % (type(e).__name__, str(e)[:120]), None
        chk.count(("tooled+probe", how, ov, pv, tweak_outside, x, val), nontrivial=ov != pv)
        chk.dist("tooled function: overlay override + plain probe on %s variable" % ("the same" if ov == pv else "another"))
        if got != want_ret or seen != [want_seen] or after != (x + 1, (x + 1) * 2, (x + 1) * 2 - x):
            chk.violation("oracle", "%s function, tweaking f > %s = %d %s probing f > %s: f(%d) = %r (substituted program: %r), "
                          "the probe saw %r (expected [%r]), afterwards f(%d) = %r" % (
                              how, ov, val, "around" if tweak_outside else "inside", pv, x, got, want_ret, seen, want_seen, x, after),
                          {"source": TSRC, "tooling": how, "override": [ov, val], "probe": pv,
                           "overlay_outside": tweak_outside, "arg": x, "got": str(got), "want": str(want_ret)})
        pyprog.drop_module(mod)


def run(chk):
    m2corr.ast_leg(chk, 80 if chk.tier == "quick" else 1500)
    m2corr.exec_leg(chk, 100 if chk.tier == "quick" else 2000, probes=False)
    rng = chk.rng
    chk.cov["rule"] = (
        "generated functions and generators (C01's program space) x a focus among the names they bind or an "
        "attribute store (O.a) x override kinds {constant, depending on a captured context variable, "
        "conditional on the tentative value} x one or two nested overriding probes (each written either directly, "
        "f > x, or through a calling wrapper, outer_w > f > x) with a plain probe in between; compared with the substituted twin (result or exception, yielded sequence, ordered helper log, "
        "object state, and the plain probe's stream); non-trivial = the focus is bound on the executed path")
    stats = {"programs": 0, "cases": 0}
    n = 90 if chk.tier == "quick" else 2500
    for i in range(n):
        gen = pylite.Gen(rng)
        fn = gen.function(generator=rng.random() < 0.2, size=rng.randrange(4, 12))
        src = pylite.render(fn)
        names = pylite.bound_names(fn)
        if not names:
            continue
        args, script, gscript = progrun.gen_inputs(rng, fn)
        stats["programs"] += 1
        for _ in range(2):
            focus = rng.choice(names + (["O.a"] if "target:attr" in pylite.stmt_kinds(fn) else []))
            others = [x for x in names if x != focus]
            ctxvar = rng.choice(others) if others and rng.random() < 0.5 else None
            kinds = [rng.choice(["const", "contextual" if ctxvar else "const", "conditional"])
                     for _ in range(rng.choice([1, 1, 2]))]
            shapes = None
            if not fn["generator"] and rng.random() < 0.5:
                shapes = [rng.choice(["direct", "path"]) for _ in kinds]
            run_case(chk, fn, src, focus, ctxvar, kinds, args, script, gscript, stats, shapes)
        if i % 30 == 0:
            chk.sample({"source": src, "twin": pylite.render(fn, twin=True, subst=(names[0], "SUBST"))})
    closures(chk, stats)
    interrupted_emission(chk, rng)
    tooled_with_probes(chk, rng)
    successive_probes(chk, rng)
    chk.cov["oracle"]["twin"] = stats


SSRC = '''
from ptera import tag

def scale(v):
    x: tag.Seed = v + 1
    x = x * 3
    y: tag.Seed = x + 1
    return (x, y)
'''


def successive_probes(chk, rng):
    """probes (plain and overriding, by name, by tag, generic) activated ONE AFTER THE OTHER on the same function:
    each behaves as if it were the first — what an earlier probe made ptera compile must not be reused for a
    selector that captures more"""
    import itertools
    import ptera
    # (selector, override constant or None, bindings of x it concerns: 1 = the tagged one, 2 = the plain one)
    probes = [("scale > x:@Seed", None, (1,)), ("scale > x", None, (1, 2)), ("scale > x", 7, (1, 2)),
              ("scale > x:@Seed", 7, (1,)), ("scale > $v:@Seed", None, (1, 3)), ("scale > y", 5, (3,))]

    def expect(ov, which, v):
        x1 = v + 1
        if ov is not None and 1 in which:
            x1 = ov
        x2 = x1 * 3
        if ov is not None and 2 in which:
            x2 = ov
        y = x2 + 1
        if ov is not None and 3 in which:
            y = ov
        seen = ([x1] if 1 in which else []) + ([x2] if 2 in which else []) + ([y] if 3 in which else [])
        return (x2, y), seen
    orders = list(itertools.permutations(range(len(probes)), 3))
    if chk.tier == "quick":
        orders = rng.sample(orders, 30)
    for order in orders:
        mod = pyprog.make_module(SSRC, "verif_c04_succ")
        for pi in order:
            sel, ov, which = probes[pi]
            v = rng.randrange(0, 5)
            want_ret, want_seen = expect(ov, which, v)
            try:
                with ptera.probing(sel, env=mod.__dict__, overridable=ov is not None) as pr:
                    if ov is not None:
                        pr.override(lambda _d, ov=ov: ov)
                    with ptera.probing(sel, env=mod.__dict__) as plain:
                        seen = plain.accum()
                        ret = mod.scale(v)
                got_seen = [list(e.values())[0] for e in seen]
            except Exception as e:
                ret, got_seen = "%s: %s" % (type(e).__name__, e), None
            chk.count(("successive", order, pi, v), nontrivial=True)
            chk.dist("successive probes")
            if ret != want_ret or got_seen != want_seen:
                chk.violation("oracle", "after the probes %r on the same function, %r%s: returned %r and a plain probe saw "
                              "%r; as the first probe it returns %r and the plain probe sees %r" % (
                                  [probes[q][0] for q in order[:order.index(pi)]], sel,
                                  "" if ov is None else " overriding with %d" % ov, ret, got_seen, want_ret, want_seen),
                              {"source": SSRC, "order": [probes[q][0] + ("" if probes[q][1] is None else " := %d" % probes[q][1]) for q in order],
                               "arg": v})
                break
        pyprog.drop_module(mod)


def replay(chk, path):
    data = json.load(open(path))
    for v in data.get("violations", []):
        print("replay:", v["what"][:300]); print(v["replay"].get("source", "")[:800])
    return 1 if data.get("violations") else 0
