"""C16 — declared-but-unset variables are supplied from outside or fail loudly.

proof leg      Props/C16.lean
oracle         generated functions with declared-only variables (x: T) and conditionally used undefined
               globals, run fully tooled / probed on a subset / probed on nothing but #enter, with every
               subset of the declared variables supplied from outside, compared with a twin in which each
               declaration is `x = <supplied value>` or `raise` (ptera's documented semantics); every
               result, event, yielded value and log entry is scanned for ptera's ABSENT marker
"""
import json

import core
import m2corr
import pylite
import progrun
import pyprog

TWIN_EXTRA = '''
class PteraNameError(Exception):
    """the twin's stand-in: same class NAME as ptera's error (the name reaches logged helpers when the
    exception object is passed on as a value)"""

def _decl_fail(name):
    raise PteraNameError(name)
'''


def declared(fn):
    out = []

    def rec(stmts):
        for s in stmts:
            if s[0] == "ann" and s[3] is None and s[1] not in out:
                out.append(s[1])
            for part in s[1:]:
                if isinstance(part, list) and part and isinstance(part[0], tuple):
                    if isinstance(part[0][0], str) and len(part[0]) and part[0][0] in (
                            "assign", "aug", "ann", "expr", "return", "pass", "for", "while", "if", "try", "with",
                            "def", "class", "import", "from", "break", "continue", "yield", "walrus"):
                        rec(part)
            if s[0] == "try":
                for h in s[2]:
                    rec(h[2])
    rec(fn["body"])
    return out


def contains_absent(x, ABSENT, depth=0):
    if x is ABSENT:
        return True
    if depth > 4:
        return False
    if isinstance(x, (list, tuple, set)):
        return any(contains_absent(y, ABSENT, depth + 1) for y in x)
    if isinstance(x, dict):
        return any(contains_absent(k, ABSENT, depth + 1) or contains_absent(v, ABSENT, depth + 1) for k, v in x.items())
    return False


def annotations_of(fn, var):
    """the annotation texts the function gives `var`, in order of appearance (distinct)"""
    out = []

    def rec(stmts):
        for s in stmts:
            if s[0] == "ann" and s[1] == var and s[2] not in out:
                out.append(s[2])
            for part in s[1:]:
                if isinstance(part, list) and part and isinstance(part[0], tuple):
                    if isinstance(part[0][0], str) and len(part[0]) >= 1 and part[0][0] in (
                            "assign", "aug", "ann", "expr", "return", "pass", "for", "while", "if", "try", "with", "def",
                            "class", "import", "from", "break", "continue", "yield", "walrus", "auglist", "raw"):
                        rec(part)
                    else:
                        for h in part:          # handlers of try: (type, name, body)
                            if isinstance(h, tuple) and len(h) == 3 and isinstance(h[2], list):
                                rec(h[2])
    rec(fn["body"])
    return out


def run(chk):
    import ptera
    from ptera import ABSENT
    from ptera.transform import PteraNameError
    m2corr.ast_leg(chk, 100 if chk.tier == "quick" else 2000, weights={"decl": 4})
    m2corr.exec_leg(chk, 100 if chk.tier == "quick" else 2000, weights={"decl": 3}, probes=False)
    rng = chk.rng
    chk.cov["rule"] = (
        "generated functions (C01's program space) with 1-3 declarations without value and expressions that "
        "read an undefined global on some paths; modes: tooled (all variables), probing on a random subset, "
        "probing on #enter only; every subset of the declared variables supplied by an overriding probe; "
        "non-trivial = a declaration is reached on the executed path")
    stats = {"programs": 0, "runs": 0, "reached_decl": 0}
    n = 120 if chk.tier == "quick" else 3000
    for i in range(n):
        gen = pylite.Gen(rng, weights={"decl": 3, "undef": 1})
        fn = gen.function(generator=rng.random() < 0.15, size=rng.randrange(4, 12))
        decls = declared(fn)
        src = pylite.render(fn)
        args, script, gscript = progrun.gen_inputs(rng, fn)
        stats["programs"] += 1
        names = pylite.bound_names(fn)
        for mode in ("tooled", "some", "enter", "total"):
            supplied = {v: rng.randrange(100, 200) for v in decls if rng.random() < 0.5}
            twin_src = pylite.render(fn, decl=lambda v: ("%s = %d" % (v, supplied[v])) if v in supplied
                                     else "_decl_fail(%r)" % v)
            tmod = pyprog.make_module(pylite.HELPERS + TWIN_EXTRA + twin_src, "verif_c16_twin")
            want = progrun.drive(tmod, getattr(tmod, fn["name"]), args, script, gscript)
            pyprog.drop_module(tmod)
            mod = progrun.make(src, "verif_c16_impl")
            f = getattr(mod, fn["name"])
            events = []
            err_info = {}
            try:
                probes = []
                if mode == "tooled":
                    f = ptera.tooled(f)
                    env = dict(mod.__dict__); env[fn["name"]] = f
                else:
                    env = mod.__dict__
                    ptype = None
                    if mode == "some" and names:
                        k = rng.sample(names, rng.randrange(1, min(3, len(names)) + 1))
                        if decls and rng.random() < 0.5:
                            # a declared variable as a context capture of another variable's probe
                            k = [rng.choice(decls)] + [x for x in k if x not in decls][:2]
                        sel = "%s(%s) > %s" % (fn["name"], ", ".join(k[:-1]), k[-1]) if len(k) > 1 else "%s > %s" % (fn["name"], k[0])
                    elif mode == "total" and (names or decls):
                        # a cumulative probe: reports once, when the call ends, whatever was captured
                        k = ([rng.choice(decls)] if decls else []) + rng.sample(names, min(len(names), 2))
                        sel = "%s(%s)" % (fn["name"], ", ".join(dict.fromkeys(k)))
                        ptype = "total"
                    else:
                        sel = "%s > #enter" % fn["name"]
                    p = ptera.probing(sel, env=env, probe_type=ptype)
                    p.subscribe(events.append)
                    probes.append(p)
                for v, val in supplied.items():
                    p = ptera.probing("%s > %s" % (fn["name"], v), env=env, overridable=True)
                    # supply only where the variable is DECLARED (no value of its own): decline elsewhere
                    p.override(lambda data, v=v, val=val: val if v not in data else ABSENT)
                    p.subscribe(events.append)
                    probes.append(p)
                for p in probes:
                    p.__enter__()
                try:
                    def call_and_capture(*a):
                        try:
                            return f(*a)
                        except PteraNameError as e:
                            err_info["name"] = e.varname
                            err_info["function_ok"] = e.function is f or e.function is getattr(mod, fn["name"])
                            try:
                                err_info["info"] = {k: e.info().get(k) for k in ("provenance", "annotation")}
                                ann = err_info["info"]["annotation"]
                                err_info["info"]["annotation"] = "ABSENT" if ann is ABSENT else \
                                    "int" if ann is int else str(ann)
                            except Exception as ee:
                                err_info["info"] = "info() failed: %s" % ee
                            raise mod.Boom("DECL:" + e.varname)
                    got = progrun.drive(mod, call_and_capture if not fn["generator"] else f, args, script, gscript)
                finally:
                    for p in reversed(probes):
                        p.__exit__(None, None, None)
            except BaseException as e:  # noqa
                got = {"activation_error": [type(e).__name__, str(e)[:120]]}
            pyprog.drop_module(mod)
            stats["runs"] += 1
            # normalise the twin's DeclError to what ptera must raise
            w = json.loads(json.dumps(want))
            if w["outcome"][0] == "exc" and w["outcome"][1] == "PteraNameError":
                stats["reached_decl"] += 1
                if fn["generator"]:
                    w["outcome"] = ["exc", "NameError", w["outcome"][2]]
                else:
                    w["outcome"] = ["exc", "Boom", "DECL:" + w["outcome"][2]]
            g = got
            chk.count(src + mode + json.dumps([args, script, gscript, sorted(supplied.items())]),
                      nontrivial=want["outcome"][:2] == ["exc", "PteraNameError"] or any(v in supplied for v in decls))
            chk.dist("mode:" + mode); chk.dist("twin:" + want["outcome"][0] + (":" + want["outcome"][1] if want["outcome"][0] == "exc" else ""))
            replay = {"source": src, "mode": mode, "supplied": supplied, "args": args, "script": script,
                      "gen_script": gscript, "twin": want, "instrumented": got}
            multi = mode == "total" and isinstance(g.get("outcome"), list) and g["outcome"][:2] == ["exc", "ValueError"] \
                and "Multiple values" in str(g["outcome"][2:])
            if g != w and not multi:
                chk.violation("oracle", "mode %s, supplied %s: the call does not behave as the declared semantics says "
                              "(twin %s / got %s)" % (mode, supplied, str(w.get("outcome"))[:80],
                                                      str(g.get("outcome", g))[:120]), replay)
            if err_info:
                if not err_info.get("function_ok") or not isinstance(err_info.get("info"), dict) \
                        or err_info["info"].get("provenance") != (
                            "argument" if err_info.get("name") in fn["params"] else "body"):
                    chk.violation("oracle", "PteraNameError does not identify the variable / function / provenance: %r" % err_info, replay)
                else:
                    # … and exposes the recorded annotation — the declared one when the variable is annotated once
                    anns = annotations_of(fn, err_info.get("name"))
                    got_ann = err_info["info"].get("annotation")
                    want_ann = {"int": "int", "'@T'": "ptera.tag.T"}.get(anns[0]) if len(anns) == 1 else None
                    if got_ann == "ABSENT" or (want_ann is not None and got_ann != want_ann):
                        chk.violation("oracle", "PteraNameError for %s exposes the annotation %s; declared: %s" % (
                            err_info.get("name"), got_ann, anns), replay)
            leak = any(contains_absent(list(e.values()), ABSENT) for e in events if isinstance(e, dict))
            if leak or '{"obj": "Named"}' in json.dumps(got):
                chk.violation("oracle", "ptera's ABSENT marker reached user-visible data", replay)
        if i % 40 == 0:
            chk.sample({"source": src, "declared": decls})
    chk.cov["oracle"]["twin"] = stats
    supplied_sometimes(chk, rng)


MSRC = '''
def mystery(hat):
    surprise: int
    result = surprise * hat
    return result

def lucky(hat):
    if hat > 100:
        return BONUS + hat
    return hat
'''


def supplied_sometimes(chk, rng):
    """a sequence of calls in which the outside world supplies the declared variable for SOME calls only (a
    conditional override), and a global that exists when the probe is activated and is deleted / restored between
    calls: every call behaves on its own — supplied: proceeds with that value; not supplied: fails with the name
    error at the declaration / at the use, never with a value left over from an earlier call, never with the marker"""
    import ptera
    from ptera.utils import ABSENT
    from ptera.transform import PteraNameError
    n = 20 if chk.tier == "quick" else 300
    for i in range(n):
        mod = pyprog.make_module(MSRC, "verif_c16_seq")
        mod.BONUS = 1000
        thr = rng.randrange(2, 6)
        val = rng.randrange(5, 12)
        seq = [rng.randrange(0, 9) for _ in range(rng.randrange(3, 8))]
        outs = []
        with ptera.probing("mystery(hat) > surprise", env=mod.__dict__, overridable=True) as prb:
            prb.filter(lambda data, thr=thr: data["hat"] >= thr).override(val)
            for h in seq:
                try:
                    outs.append(mod.mystery(h))
                except PteraNameError as e:
                    outs.append("PteraNameError:" + str(getattr(e, "varname", "?")))
                except Exception as e:
                    outs.append("%s: %s" % (type(e).__name__, e))
        want = [val * h if h >= thr else "PteraNameError:surprise" for h in seq]
        chk.count(("supplied-sometimes", thr, val, tuple(seq)), nontrivial=any(h >= thr for h in seq) and any(h < thr for h in seq))
        chk.dist("declared variable supplied for some calls only")
        if outs != want or any(o is ABSENT for o in outs):
            chk.violation("oracle", "mystery(hat) with `surprise` supplied (= %d) only when hat >= %d: calls %r gave %r, "
                          "each call on its own gives %r" % (val, thr, seq, outs, want),
                          {"source": MSRC, "supplied": {"surprise": val}, "mode": "conditional", "args": seq})
        # a global present at activation, deleted and restored between the calls (partial instrumentation)
        ops = [rng.choice(["del", "set", "call-hi", "call-lo", "call-hi"]) for _ in range(rng.randrange(4, 9))]
        got, wantg = [], []
        cur = 1000
        with ptera.probing("lucky > hat", env=mod.__dict__):
            for op in ops:
                if op == "del":
                    if hasattr(mod, "BONUS"):
                        del mod.BONUS
                    cur = None
                elif op == "set":
                    cur = rng.randrange(1, 50)
                    mod.BONUS = cur
                else:
                    h = 200 if op == "call-hi" else 3
                    try:
                        r = mod.lucky(h)
                        got.append("marker" if r is ABSENT else r)
                    except NameError:
                        got.append("NameError family")
                    except Exception as e:
                        got.append("%s: %s" % (type(e).__name__, e))
                    wantg.append(h if h <= 100 else ("NameError family" if cur is None else cur + h))
        chk.count(("global-comes-and-goes", tuple(ops)), nontrivial="del" in ops)
        chk.dist("global deleted / restored between calls")
        if got != wantg:
            chk.violation("oracle", "lucky(hat) under `lucky > hat` with the global BONUS deleted / restored between calls "
                          "(%r): got %r, the untouched function gives %r" % (ops, got, wantg),
                          {"source": MSRC, "mode": "global comes and goes", "args": ops, "supplied": {}})
        pyprog.drop_module(mod)


def replay(chk, path):
    data = json.load(open(path))
    for v in data.get("violations", []):
        print("replay:", v["what"][:300]); print(v["replay"].get("source", "")[:800])
    return 1 if data.get("violations") else 0
