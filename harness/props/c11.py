"""C11 — tag selectors capture exactly the bindings that carry the tag.

proof leg      Props/C11.lean (match_tag / check_element iff-characterisations, tag-set algebra,
               working set of an interaction, function-position tags)
correspondence match_tag / check_element on the whole 3-tag domain (exhaustive); runtime model M3 vs
               implementation on generated call trees with tag-heavy selectors (raw captures: real names)
oracle         raw stream (capture.name, value) vs the annotation table of the generated program;
               instrumented binding sites of the rewritten function vs the tagged sites; string and
               object forms of annotations; unrestricted generic capture vs every binding
"""
import ast
import itertools
import json

import core
import pyprog
import treegen
import treecorr
import treeref
from props import c03

TAGS = ["A", "B", "C"]


def unit(chk):
    """match_tag / check_element: implementation vs model on the whole small domain"""
    from ptera import tag
    from ptera.tags import match_tag, TagSet
    from ptera.selector import check_element, Element
    from ptera.utils import ABSENT
    drv = chk.open_driver()
    cats = [None, "other"] + [list(c) for n in range(1, 4) for c in itertools.permutations(TAGS, n)] + [["A", "A"]]
    reqs, want = [], []
    for to_match in [None] + TAGS:
        for cat in cats:
            for name in [None, "x", "y"]:
                if cat is None:
                    obj = None
                elif cat == "other":
                    obj = ABSENT
                elif len(cat) == 1:
                    obj = getattr(tag, cat[0])
                else:
                    obj = TagSet([getattr(tag, t) for t in cat])
                tm = None if to_match is None else getattr(tag, to_match)
                el = Element(name=name, category=tm, capture="c")
                reqs.append({"op": "tagmatch", "name": name, "category": to_match, "var": "x", "cat": cat})
                want.append({"match": match_tag(tm, obj), "check": check_element(el, "x", obj)})
                # oracle: the property's reading
                expect = to_match is None or (isinstance(cat, list) and to_match in cat)
                if match_tag(tm, obj) != expect:
                    chk.violation("oracle", "match_tag(%r, %r) = %r" % (to_match, cat, match_tag(tm, obj)),
                                  {"kind": "match_tag", "to_match": to_match, "cat": cat})
    got = drv.ask_many(reqs)
    bad = 0
    for r, g, w in zip(reqs, got, want):
        chk.count(("unit", json.dumps(r, sort_keys=True)))
        if g != w:
            bad += 1
            chk.violation("correspondence", "match_tag/check_element differ", {"req": r, "model": g, "impl": w})
    chk.cov["correspondence"]["tag_unit"] = {"cases": len(reqs), "disagreements": bad, "exhaustive": True}


def gen_handlers(rng, fam):
    hs = []
    for _ in range(rng.choice([1, 1, 2])):
        fi = rng.randrange(fam.k)
        t = rng.choice(["T", "U"])
        form = rng.choice(["generic", "generic", "named", "fnpos", "mixed", "total"])
        vs = treegen.fn_vars(fam, fi)
        if form == "generic":
            sel = "f%d > $v:@%s" % (fi, t)
        elif form == "named":
            sel = "f%d > %s:@%s" % (fi, rng.choice(vs), t)
        elif form == "fnpos":
            sel = "(*:@%s)(!%s)" % (t, rng.choice(treegen.VARS))
        elif form == "mixed":
            sel = "f%d($w:@%s) > f%d > $v:@%s" % (rng.randrange(fam.k), rng.choice(["T", "U"]), fi, t)
        else:
            sel = "f%d($v:@%s)" % (fi, t)
        hs.append({"kind": "total" if form == "total" else "immediate", "selector": sel, "trigger": form != "total"})
    return hs


def oracle(chk, fam, infos, hs, hj, roots, trees, evs, err, stats):
    if err is not None:
        return
    hist, counter = [], [0]
    for t in trees:
        treeref.walk(t, [], hist, counter)
    for hi, (h, j) in enumerate(zip(hs, hj)):
        sel = j["sel"]
        if h["kind"] != "immediate" or sel["children"] or len(sel["captures"]) != 1:
            continue
        cap = sel["captures"][0]
        want = []
        for (var, cat, val, st) in hist:
            fn = st[-1][1]
            if sel["fn"] is not None and sel["fn"] != fn:
                continue
            if sel["fcat"] is not None:
                ret = infos[fn]["ret"]
                if not (isinstance(ret, list) and sel["fcat"] in ret):
                    continue
                if cap["name"] is not None and cap["name"] not in [v[0] for v in infos[fn]["vars"]]:
                    continue
            if cap["name"] is not None and cap["name"] != var:
                continue
            if cap["category"] is not None and not (isinstance(cat, list) and cap["category"] in cat):
                continue
            want.append((var, val))
        got = [(e["args"][cap["capture"]]["names"][0], e["args"][cap["capture"]]["values"][0]["v"])
               for e in evs if e["h"] == hi and e["ev"] == "trigger"]
        stats["oracle_checked"] += 1
        if got != want:
            chk.violation("oracle", "selector %r captured %r, the annotation table gives %r" % (
                h["selector"], got[:8], want[:8]),
                {"family_src": fam.src, "handlers": [h], "roots": roots, "got": got[:20], "reference": want[:20]})


FORM_SRC = '''
from ptera import tag

def f(p: %(p)s, q, r: %(r)s = 3):
    a: %(a)s = p + 1
    b = q + a
    a = b * 2
    c: %(c)s = a - r
    return c
'''


FORM2_SRC = """
from ptera import tag

def f(p: %(p)s, q):
    p: %(p2)s = p + 1
    a: %(a)s = q
    a: %(a2)s = a + p
    return a
"""


def several_sites(chk):
    """a variable annotated at several places — with tags, tag sets or annotations that are no tag at all, in any
    order: each BINDING is captured iff its own annotation carries the tag (finding F41: a later annotation without
    a tag erased the tags of the earlier ones)"""
    import ptera
    rng = chk.rng
    alts = {"A": ["'@A'", "tag.A"], "B": ["'@B'", "tag.B"], "AB": ["'@A & @B'", "tag.B & tag.A"],
            "none": ["int", "'plain string'", "None"]}
    for _ in range(30 if chk.tier == "quick" else 400):
        kinds = {k: rng.choice(["A", "B", "AB", "none", "none"]) for k in ("p", "p2", "a", "a2")}
        choice = {k: rng.choice(alts[kinds[k]]) for k in kinds}
        src = FORM2_SRC % choice
        P, Q = rng.randrange(0, 5), rng.randrange(0, 5)
        binds = [("p", P, "p"), ("q", Q, None), ("p", P + 1, "p2"), ("a", Q, "a"), ("a", Q + P + 1, "a2")]
        has = lambda k, t: k is not None and t in {"A": "A", "B": "B", "AB": "AB", "none": ""}[kinds[k]]
        chk.count(("several-sites", json.dumps(choice, sort_keys=True)),
                  nontrivial=any(kinds[x] != "none" and kinds[y] == "none" for x, y in (("p", "p2"), ("a", "a2"))))
        chk.dist("several sites: a tag then no tag" if any(kinds[x] != "none" and kinds[y] == "none" for x, y in (("p", "p2"), ("a", "a2")))
                 else "several sites")
        for t in "AB":
            for sel, pick in (("f > $v:@%s" % t, lambda n_: True), ("f > a:@%s" % t, lambda n_: n_ == "a"),
                              ("f(!*:@%s)" % t, lambda n_: True)):
                want = [(n_, v) for n_, v, k in binds if has(k, t) and pick(n_)]
                mod = pyprog.make_module(src, "verif_c11_sites")
                try:
                    with ptera.probing(sel, env=mod.__dict__, raw=True).values() as evs:
                        mod.f(P, Q)
                    got = [(c.name, c.value) for e in evs for c in e.values()]
                except ptera.SelectorError as e:
                    got = [] if not want else "refused: %s" % str(e)[-80:]
                pyprog.drop_module(mod)
                if got != want:
                    chk.violation("oracle", "annotations %r: %s gives %r, the bindings annotated with %s are %r" % (
                        choice, sel, got, t, want),
                        {"family_src": src, "handlers": [{"selector": sel}], "roots": ["f(%d, %d)" % (P, Q)],
                         "got": got if isinstance(got, list) else [got], "reference": want})


def instrumented_sites(fn, elements):
    """variable names passed to interact() in the rewritten code, in source order"""
    import importlib
    T = importlib.import_module("ptera.transform")
    from ptera.overlay import proceed
    captured = {}
    orig = T._compile

    def spy(filename, tree, freevars):
        captured["tree"] = tree
        return orig(filename, tree, freevars)
    T._compile = spy
    try:
        T.transform(fn, proceed=proceed, to_instrument=elements, set_conformer=False)
    finally:
        T._compile = orig
    names = []
    for node in ast.walk(captured["tree"]):
        if isinstance(node, ast.Call) and isinstance(node.func, ast.Attribute) and node.func.attr == "interact":
            names.append((node.lineno, node.col_offset, node.args[0].value))
    return [n for _, _, n in sorted(names)]


def forms(chk):
    """string / object forms, order and repetition of &; instrumented sites; unrestricted generic"""
    import ptera
    from ptera.selector import Element
    from ptera import tag
    rng = chk.rng
    alts = {
        "A": ["'@A'", "tag.A"],
        "AB": ["'@A & @B'", "'@B & @A'", "'@A&@B'", "'@A  &  @B & @A'", "tag.A & tag.B", "tag.B & tag.A",
               "tag.A & tag.B & tag.A"],
        "none": ["int", "'plain string'"],
    }
    n = 0
    for _ in range(12 if chk.tier == "quick" else 120):
        kinds = {k: rng.choice(["A", "AB", "none"]) for k in "prac"}
        results = []
        variants = []
        for _ in range(3):
            choice = {k: rng.choice(alts[kinds[k]]) for k in "prac"}
            variants.append(choice)
            mod = pyprog.make_module(FORM_SRC % choice, "verif_c11_forms")
            res = {}
            for selname, sel in (("gA", "f > $v:@A"), ("gB", "f > $v:@B"), ("named", "f > a:@B"),
                                 ("any", "f > $v"), ("star", "f(!*:@A)")):
                try:
                    with ptera.probing(sel, env=mod.__dict__, raw=True).values() as evs:
                        out = mod.f(2, 3)
                    res[selname] = [(c.name, c.value) for e in evs for c in e.values()]
                except ptera.SelectorError:
                    # static verification: no variable of f carries the tag -> refused at activation
                    res[selname] = []
                    out = mod.f(2, 3)
            res["ret"] = out
            # instrumented sites when only the tag A is selected
            res["sites"] = instrumented_sites(mod.f, [Element(name=None, category=tag.A, capture="v", tags=frozenset({1}))])
            results.append(res)
            pyprog.drop_module(mod)
            n += 1
        chk.count(("forms", json.dumps(variants, sort_keys=True)))
        # the table the property speaks about
        has = lambda k, t: t in {"A": "A", "AB": "AB", "none": ""}[kinds[k]]
        p, q, r = 2, 3, 3
        a1 = p + 1; b = q + a1; a2 = b * 2; c = a2 - r
        binds = [("p", p, "p"), ("q", q, None), ("r", r, "r"), ("a", a1, "a"), ("b", b, None), ("a", a2, None), ("c", c, "c")]
        want = {
            "gA": [(n_, v) for n_, v, k in binds if k and has(k, "A")],
            "gB": [(n_, v) for n_, v, k in binds if k and has(k, "B")],
            "named": [(n_, v) for n_, v, k in binds if n_ == "a" and k and has(k, "B")],
            "star": [(n_, v) for n_, v, k in binds if k and has(k, "A")],
            "sites": [n_ for n_, v, k in binds if k and has(k, "A")],
            "ret": c,
        }
        for res, choice in zip(results, variants):
            for key in want:
                if res[key] != want[key]:
                    chk.violation("oracle", "annotations %r: %s gives %r, the tagged bindings are %r" % (
                        choice, key, res[key], want[key]),
                        {"family_src": FORM_SRC % choice, "handlers": [{"selector": key}], "roots": ["f(2, 3)"],
                         "got": res[key], "reference": want[key]})
            # globals the body reads (tag, int, ...) are fetched at entry and reported as external
            # variables: documented behaviour, not a binding made by the function
            own = {n_ for n_, _, _ in binds}
            names_any = [n_ for n_, _ in res["any"] if not n_.startswith("#") and n_ in own]
            if names_any != [n_ for n_, _, _ in binds]:
                chk.violation("oracle", "unrestricted generic capture saw %r, the function binds %r" % (
                    names_any, [n_ for n_, _, _ in binds]),
                    {"family_src": FORM_SRC % choice, "handlers": [{"selector": "f > $v"}], "roots": ["f(2, 3)"],
                     "got": names_any, "reference": [n_ for n_, _, _ in binds]})
    chk.cov["oracle"]["annotation_forms_programs"] = n


def run(chk):
    chk.cov["rule"] = (
        "unit: every (restriction, annotation, name) over a 3-tag alphabet incl. tag sets in every order "
        "(exhaustive); trees: families of tooled functions whose bindings carry random tag sets (same variable "
        "tagged at one site and untagged at another), generic / named / function-position / nested tag "
        "selectors; forms: one program rendered with string and object annotation forms, re-ordered and "
        "repeated members; non-trivial = at least one event and more than one activation")
    chk.cov["exhaustive"] = True
    unit(chk)
    nf, nc = (4, 120) if chk.tier == "quick" else (24, 400)
    c03.run_cases(chk, nf, nc, gen_handlers, oracle)
    forms(chk)
    several_sites(chk)


replay = c03.replay
