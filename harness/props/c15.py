"""C15 — the documented selector notations are interchangeable.

proof leg      Props/C15.lean (evaluator laws for all operand trees, the documented equations for
               arbitrary word operands, interning, focus)
correspondence model parse vs ptera.selector.parse on generated grammar terms in every style and
               whitespace variant (compiled selector, error class/offset)
oracle         parse(lhs) is parse(rhs) on the implementation for every documented equation
               instantiated with generated operands; respacing; identity <-> structural equality;
               the focus is the marked variable
"""
import json

import core
import selcorr

NAMES = ["a", "b", "x", "y", "loss", "#value", "#enter", "#loop_i"]
FUNCS = ["f", "g", "h", "K.m", "mod.sub.fn"]
TAGS = ["@T", "@U", "T"]
VALUES = ["1", "-2", "3.5", "'s'", "v", "every(3)", "between(1, 5)", "p(k=1)", "p(1, k=2, j='x')"]


def gen_var(rng):
    kind = rng.choice(["name", "name", "dollar", "alias", "tagged", "valued", "match", "gtag", "full"])
    base = rng.choice(NAMES)
    if kind == "name":
        return base
    if kind == "dollar":
        return "$" + rng.choice(["q", "r"])
    if kind == "alias":
        return "%s as %s" % (base, rng.choice(["q", "r", "s"]))
    if kind == "tagged":
        return "%s:%s" % (base, rng.choice(TAGS))
    if kind == "gtag":
        return rng.choice(["*:%s", "$q:%s", "* as z:%s"]) % rng.choice(TAGS)
    if kind == "valued":
        return "%s=%s" % (base, rng.choice(VALUES))
    if kind == "match":
        return "%s~%s" % (base, rng.choice(VALUES))
    return "%s as %s:%s=%s" % (base, rng.choice(["q", "r"]), rng.choice(TAGS), rng.choice(VALUES))


def gen_term(rng, depth, focus):
    """{'fn', 'caps': [var], 'kids': [term], 'focus': None | ('var', v) | ('kid', term)}"""
    t = {"fn": rng.choice(FUNCS), "caps": [gen_var(rng) for _ in range(rng.randrange(0, 3))], "kids": [],
         "focus": None}
    if depth > 0:
        for _ in range(rng.randrange(0, 2)):
            t["kids"].append(gen_term(rng, depth - 1, False))
    if focus:
        if depth > 0 and rng.random() < 0.5:
            t["focus"] = ("kid", gen_term(rng, depth - 1, True))
        else:
            t["focus"] = ("var", gen_var(rng))
    return t


def render_bang(t):
    parts = list(t["caps"]) + [render_bang(k) for k in t["kids"]]
    if t["focus"]:
        kind, f = t["focus"]
        parts.append("!" + f if kind == "var" else render_bang(f))
    return "%s(%s)" % (t["fn"], ", ".join(parts))


def render_gt(t, rng=None):
    parts = list(t["caps"]) + [render_gt(k, rng) for k in t["kids"]]
    head = "%s(%s)" % (t["fn"], ", ".join(parts)) if parts or (rng and rng.random() < 0.3) else t["fn"]
    if not t["focus"]:
        return head if parts else t["fn"] + "()"
    kind, f = t["focus"]
    if kind == "var":
        return "%s > %s" % (head, f)
    inner = render_gt(f, rng)
    if rng and rng.random() < 0.4:
        inner = "(%s)" % inner
    return "%s > %s" % (head, inner)


def is_same(l, r):
    from ptera.selector import parse
    try:
        a = parse(l)
    except Exception as e:
        return "lhs raised %s" % type(e).__name__
    try:
        b = parse(r)
    except Exception as e:
        return "rhs raised %s" % type(e).__name__
    return None if a is b else "different objects: %s vs %s" % (a, b)


def run(chk):
    rng = chk.rng
    drv = chk.open_driver()
    from ptera.selector import parse
    N = 1500 if chk.tier == "quick" else 30000
    pairs = []   # (equation label, lhs, rhs)
    for _ in range(N):
        t = gen_term(rng, rng.randrange(0, 3), True)
        pairs.append(("f(a) > x == f(a, !x) / nesting / grouping", render_gt(t, rng), render_bang(t)))
    for _ in range(N // 3):
        fn, r = rng.choice(FUNCS), rng.choice(["r", "q", "out"])
        caps = ", ".join(gen_var(rng) for _ in range(rng.randrange(0, 3)))
        pairs.append(("f() as r == f(!#value as r)", "%s(%s) as %s" % (fn, caps, r),
                      "%s(%s!#value as %s)" % (fn, caps + ", " if caps else "", r)))
        x = rng.choice(["q", "r", "x", "loss"])
        sfx = rng.choice(["", ":@T", "=1", ":@U~every(2)"])
        pairs.append(("$x == * as x", "%s > $%s%s" % (fn, x, sfx), "%s > * as %s%s" % (fn, x, sfx)))
        pairs.append(("$x == * as x", "%s($%s%s) > y" % (fn, x, sfx), "%s(* as %s%s) > y" % (fn, x, sfx)))
        v = rng.choice(VALUES)
        op = rng.choice(["=", "~"])
        pairs.append(("f(b)=c == f(b, #value=c)", "%s(%s)%s%s" % (fn, caps, op, v),
                      "%s(%s#value%s%s)" % (fn, caps + ", " if caps else "", op, v)))
        a, b, c = rng.choice(FUNCS), rng.choice(FUNCS), gen_var(rng)
        pairs.append(("a > b > c == a > (b > c) == a(b(!c))", "%s > %s > %s" % (a, b, c), "%s > (%s > %s)" % (a, b, c)))
        pairs.append(("a > b > c == a > (b > c) == a(b(!c))", "%s > %s > %s" % (a, b, c), "%s(%s(!%s))" % (a, b, c)))
    # every equation also holds where the selector stands to the right of a `>` path
    ctx_pairs = []
    for label, l, r in pairs[N:]:
        if label.startswith("$x") or "(b > c)" in label:
            continue
        pre = rng.choice(["g > ", "g(a) > ", "g > h(b) > ", "K.m > "])
        ctx_pairs.append((label + " [under >]", pre + l, pre + r))
        ctx_pairs.append((label + " [under > grouped]", pre + "(" + l + ")", pre + r))
    pairs += ctx_pairs
    # respacing / line breaking
    for _ in range(N):
        t = gen_term(rng, rng.randrange(0, 3), True)
        s = render_gt(t, rng) if rng.random() < 0.5 else render_bang(t)
        pairs.append(("re-spacing", s, selcorr.respace(rng, s)))
    chk.cov["rule"] = (
        "terms of the documented grammar (function with 0-2 captures drawn from names, aliases, tags, "
        "values, predicates, generic captures, meta-variables; 0-1 sibling calls per level; depth <= 2; "
        "focus as a variable or inside a nested call) rendered in the `>` style and the `!` style, the "
        "other documented equations with generated operands, and random re-spacing; each pair is compiled "
        "by the implementation (identity oracle) and both sides by the model (correspondence). "
        "distinct_nontrivial = distinct pairs whose two spellings differ as strings and compile")
    bad_corr = 0
    strs = sorted({s for _, l, r in pairs for s in (l, r)})
    model = dict(zip(strs, drv.ask_many([selcorr.req("parse", s) for s in strs])))
    for s in strs:
        i = selcorr.impl_parse(s)
        if model[s] != {k: v for k, v in i.items() if k != "msg"}:
            bad_corr += 1
            if bad_corr <= 20:
                chk.violation("correspondence", "parse(%r): model and implementation differ" % s,
                              {"op": "parse", "string": s, "model": model[s], "impl": i})
    chk.cov["correspondence"] = {"strings": len(strs), "disagreements": bad_corr}
    for label, l, r in pairs:
        why = is_same(l, r)
        ok_both = "ok" in model[l] and "ok" in model[r]
        chk.count((l, r), nontrivial=(l != r and ok_both))
        chk.dist(label)
        if why:
            chk.violation("oracle", "%s: parse(%r) is not parse(%r): %s" % (label, l, r, why),
                          {"equation": label, "lhs": l, "rhs": r})
        elif model[l] != model[r]:
            chk.violation("correspondence", "model compiles %r and %r differently" % (l, r),
                          {"equation": label, "lhs": l, "rhs": r, "model_lhs": model[l], "model_rhs": model[r]})
    # identity <-> structural equality, and reflexive equality of every compiled object
    objs = {}
    for s in strs:
        try:
            objs[s] = parse(s)
        except Exception:
            pass
    dumps = {s: json.dumps(selcorr.dump_item(o), sort_keys=True) for s, o in objs.items()}
    keys = list(objs)
    n_id = 0
    for _ in range(min(len(keys) * 3, 40000)):
        s1, s2 = rng.choice(keys), rng.choice(keys)
        same_obj = objs[s1] is objs[s2]
        same_struct = dumps[s1] == dumps[s2]
        n_id += 1
        if same_obj != same_struct:
            chk.violation("oracle", "identity and structural equality disagree for %r / %r" % (s1, s2),
                          {"lhs": s1, "rhs": s2, "same_object": same_obj, "same_structure": same_struct})
    for s in keys:
        again = parse(s)
        if again is not objs[s]:
            chk.violation("oracle", "compiling %r twice gives two objects" % s, {"lhs": s, "rhs": s})
    # focus: exactly the variable marked with ! / after the last >
    n_focus = 0
    for _ in range(N):
        t = gen_term(rng, rng.randrange(0, 3), True)
        # find the focus variable text
        f = t
        while f["focus"][0] == "kid":
            f = f["focus"][1]
        fv = f["focus"][1]
        for s in (render_gt(t, rng), render_bang(t)):
            try:
                sel = parse(s)
                want = parse("zz(!%s)" % fv).captures[0]
            except Exception as e:
                chk.violation("oracle", "parse(%r) raised %s" % (s, type(e).__name__), {"lhs": s, "rhs": s})
                continue
            n_focus += 1
            if sel.main is not want or not sel.focus:
                chk.violation("oracle", "focus of %r is %s, expected %s" % (s, sel.main, want),
                              {"lhs": s, "rhs": "zz(!%s)" % fv, "kind": "focus"})
    chk.cov["oracle"] = {"pairs": len(pairs), "identity_pairs": n_id, "recompiled": len(keys), "focus": n_focus}
    chk.sample({"equation": pairs[0][0], "lhs": pairs[0][1], "rhs": pairs[0][2]})
    chk.sample({"equation": pairs[N][0], "lhs": pairs[N][1], "rhs": pairs[N][2]})
    chk.sample({"equation": pairs[-1][0], "lhs": pairs[-1][1], "rhs": pairs[-1][2]})
    chk.assumptions += [
        "C15_eqn_* are proved for word operands of arbitrary text; compound operands (aliases, tags, values, nested calls) are covered by the evaluator laws (all operand trees) plus this generated correspondence, not by a parser theorem (operand absorption lemma not proved)",
    ]


def replay(chk, path):
    data = json.load(open(path))
    bad = 0
    for v in data.get("violations", []):
        r = v["replay"]
        why = is_same(r["lhs"], r["rhs"])
        print("replay parse(%r) is parse(%r): %s" % (r["lhs"], r["rhs"], why or "same object"))
        bad += 1 if why else 0
    return 1 if bad else 0
