"""C06 — entry/exit, loop, yield, return and error meta-events bracket every path.

proof leg      Props/C06.lean
oracle         merged stream of probes on #enter / #exit / #value / #error / #loop_X / #endloop_X / #yield /
               #receive checked against the bracket grammar the property states and against the run itself
               (returned value, raised exception, yielded / sent values, iterations counted by a marker call
               at the top of every for-body)
"""
import json

import core
import m2corr
import pylite
import progrun
import pyprog


def add_loop_markers(fn, gen):
    """first statement of every for-body becomes H(k): LOG tells how many iterations started"""
    loops = []      # (k, [target names])

    def rec(stmts):
        for s in stmts:
            if s[0] == "for":
                k = gen.nk()
                loops.append((k, pylite.target_names(s[1])))
                s[3].insert(0, ("expr", "H(%d)" % k))
                rec(s[3]); rec(s[4])
            elif s[0] == "while":
                rec(s[2])
            elif s[0] == "if":
                rec(s[2]); rec(s[3])
            elif s[0] == "try":
                rec(s[1])
                for h in s[2]:
                    rec(h[2])
                rec(s[3]); rec(s[4])
            elif s[0] == "with":
                rec(s[3])
    rec(fn["body"])
    return loops


def has_exit_in_finally(fn):
    found = [False]

    def scan(stmts, in_final):
        for s in stmts:
            if in_final and s[0] in ("return", "break", "continue"):
                found[0] = True
            if s[0] == "for":
                scan(s[3], False if False else in_final); scan(s[4], in_final)
            elif s[0] == "while":
                scan(s[2], in_final)
            elif s[0] == "if":
                scan(s[2], in_final); scan(s[3], in_final)
            elif s[0] == "try":
                scan(s[1], in_final)
                for h in s[2]:
                    scan(h[2], in_final)
                scan(s[3], in_final); scan(s[4], True)
            elif s[0] == "with":
                scan(s[3], in_final)
    scan(fn["body"], False)
    return found[0]


def has_return_under_finally(fn):
    """a return statement inside the body / a handler / the else part of a try that has a finally clause"""
    found = [False]

    def scan(stmts, guarded):
        for s in stmts:
            if guarded and s[0] == "return":
                found[0] = True
            if s[0] == "for":
                scan(s[3], guarded); scan(s[4], guarded)
            elif s[0] == "while":
                scan(s[2], guarded)
            elif s[0] == "if":
                scan(s[2], guarded); scan(s[3], guarded)
            elif s[0] == "try":
                g = guarded or bool(s[4])
                scan(s[1], g)
                for h in s[2]:
                    scan(h[2], g)
                scan(s[3], g); scan(s[4], guarded)
            elif s[0] == "with":
                scan(s[3], guarded)
    scan(fn["body"], False)
    return found[0]


WITNESS_D = '''
def wd():
    try:
        return 1
    finally:
        R(7)
'''


def witness_d(chk):
    """finding F7d replayed: a return whose completion is pre-empted by an exception raised in the finally clause
    has already reported its value"""
    import ptera
    mod = pyprog.make_module(pylite.HELPERS + WITNESS_D, "verif_c06_witness_d")
    stream = []
    prb = ptera.Probe("wd > #value", "wd > #error", env=mod.__dict__)
    prb.subscribe(lambda d: stream.extend(d.keys()))
    raised = None
    with prb:
        try:
            mod.wd()
        except Exception as e:
            raised = type(e).__name__
    pyprog.drop_module(mod)
    chk.count(("witness-F7d",))
    chk.cov["oracle"]["F7d_witness"] = {"raised": raised, "events": stream}
    if raised == "Boom" and stream == ["#error"]:
        return
    if raised == "Boom" and stream == ["#value", "#error"] and chk.is_known("F7d"):
        chk.known_finding("F7d", "wd() ends by raising Boom from its finally clause but delivered %r: the return "
                          "had already reported its value" % stream)
    else:
        chk.violation("oracle", "wd() raised %r with events %r" % (raised, stream), {"source": WITNESS_D})


def check_stream(stream, res, loops, fn, gscript=None):
    """-> list of problems"""
    problems = []
    names = [n for n, _ in stream]
    if names.count("#enter") != 1 or (names and names[0] != "#enter"):
        problems.append("#enter must come first, exactly once (got %d, first=%s)" % (names.count("#enter"), names[:1]))
    if names.count("#exit") != 1 or (names and names[-1] != "#exit"):
        problems.append("#exit must come last, exactly once (got %d, last=%s)" % (names.count("#exit"), names[-1:]))
    out = res["outcome"]
    ys = res["yields"]
    closed_early = any(y[0] in ("closed", "dropped") for y in ys)
    gen = fn["generator"]
    if not gen:
        if out[0] == "ret":
            vals = [progrun.plain(v) for n, v in stream if n == "#value"]
            if vals != [out[1]]:
                problems.append("normal completion returning %r: #value events %r" % (out[1], vals))
            if "#error" in names:
                problems.append("#error on a normal completion")
        else:
            errs = [type(v).__name__ for n, v in stream if n == "#error"]
            want = out[1] if out[1] != "NameError" else None
            if len(errs) != 1 or (want and errs[0] != want and not (want == "NameError")):
                problems.append("activation raised %s: #error events %r" % (out[1], errs))
            if "#value" in names:
                problems.append("#value although the activation ended by raising")
    else:
        # yields: each suspension = #yield v then (if resumed) #receive r
        yvals = [progrun.plain(v) for n, v in stream if n == "#yield"]
        seen = [y[1] for y in ys if y[0] == "y"]
        if yvals != seen:
            problems.append("driver saw yields %r, #yield events %r" % (seen, yvals))
        # pairing: after each #yield the next yield-related event is #receive (or nothing if never resumed)
        # a resumption by throw / close / drop sends nothing: no #receive for that suspension
        pend = False
        k = -1
        for n in names:
            if n == "#yield":
                if pend:
                    op = (gscript or [])[k + 1][0] if gscript and k + 1 < len(gscript) else None
                    if op not in ("throw", "close", "drop", None):
                        problems.append("two #yield without #receive in between")
                k += 1
                pend = True
            elif n == "#receive":
                if not pend:
                    problems.append("#receive without a pending #yield")
                else:
                    op = (gscript or [])[k + 1][0] if gscript and k + 1 < len(gscript) else None
                    if op in ("throw", "close", "drop"):
                        problems.append("#receive although the generator was resumed by %s" % op)
                pend = False
        stops = [y for y in ys if y[0] == "stop"]
        if stops:
            vals = [progrun.plain(v) for n, v in stream if n == "#value"]
            if vals != [stops[0][1]]:
                problems.append("generator returned %r: #value events %r" % (stops[0][1], vals))
    # loops: begin/end properly nested, one pair per iteration
    stack = []
    counts = {}
    for n, _ in stream:
        if n.startswith("#loop_"):
            stack.append(n[6:])
            counts[n[6:]] = counts.get(n[6:], 0) + 1
        elif n.startswith("#endloop_"):
            v = n[9:]
            if not stack:
                problems.append("#endloop_%s without an open iteration" % v)
            else:
                # tuple targets open several markers for one iteration: they close as a group
                if v in stack:
                    stack.remove(v)
                else:
                    problems.append("#endloop_%s does not match the open iterations %s" % (v, stack))
    if stack:
        problems.append("iterations left open at the end: %s" % stack)
    started = {}
    for e in res["log"]:
        if e[0] == "H":
            for k, vs in loops:
                if e[1] == k:
                    for v in vs:
                        started[v] = started.get(v, 0) + 1
    for v, c in started.items():
        if counts.get(v, 0) != c:
            problems.append("%d iteration(s) bound %s, %d #loop_%s events" % (c, v, counts.get(v, 0), v))
    for v, c in counts.items():
        if v not in started:
            problems.append("#loop_%s events (%d) for a loop that never ran" % (v, c))
    return problems


WITNESS = """
def w():
    for i in range(2):
        try:
            return 1
        finally:
            continue
    return 2
"""


def witness(chk):
    """finding F7c replayed: a return cancelled by `continue` in a finally clause still reports its value"""
    import ptera
    mod = pyprog.make_module(WITNESS, "verif_c06_witness")
    with ptera.probing("w > #value", env=mod.__dict__).values() as vs:
        r = mod.w()
    vals = [e["#value"] for e in vs]
    chk.count(("witness-F7c",))
    chk.cov["oracle"]["F7c_witness"] = {"returned": r, "value_events": vals}
    if vals == [r]:
        return
    if vals == [1, 1, 2] and r == 2 and chk.is_known("F7c"):
        chk.known_finding("F7c", "w() returns 2 but delivers #value events %r: the returns cancelled by "
                          "`continue` in the finally clause reported their value" % vals)
    else:
        chk.violation("oracle", "w() returned %r with #value events %r" % (r, vals), {"source": WITNESS})
    pyprog.drop_module(mod)


def run(chk):
    import ptera
    m2corr.ast_leg(chk, 80 if chk.tier == "quick" else 1500)
    m2corr.exec_leg(chk, 100 if chk.tier == "quick" else 2000)
    rng = chk.rng
    chk.cov["rule"] = (
        "generated functions and generators with nested for/while/if/try/finally/with and early exits (return, "
        "break, continue, raising helper calls), scripted conditions, generators driven by random scripts of "
        "next / send / throw / close / drop; one probe on all meta-variables of the function; non-trivial = the "
        "stream contains at least one loop iteration, yield or error event besides #enter/#exit")
    stats = {"programs": 0, "events": 0, "known": {}}
    n = 150 if chk.tier == "quick" else 4000
    for i in range(n):
        gen = pylite.Gen(rng)
        fn = gen.function(generator=rng.random() < 0.35, size=rng.randrange(4, 14))
        if rng.random() < 0.2:
            # an exception that is not an Exception (the kind KeyboardInterrupt / SystemExit are) may end the activation
            fn["body"].insert(rng.randrange(0, len(fn["body"]) + 1),
                              ("if", "C(%d)" % gen.nk(), [("expr", "RQ(%d)" % gen.nk())], []))
        loops = add_loop_markers(fn, gen)
        src = pylite.render(fn)
        args, script, gscript = progrun.gen_inputs(rng, fn)
        loopvars = sorted({v for _, vs in loops for v in vs})
        metas = ["#enter", "#exit", "#value", "#error"] + (["#yield", "#receive"] if fn["generator"] else []) + \
            ["#loop_" + v for v in loopvars] + ["#endloop_" + v for v in loopvars]
        sels = ["%s > %s" % (fn["name"], m) for m in metas]
        mod = progrun.make(src, "verif_c06")
        stream = []
        try:
            prb = ptera.Probe(*sels, env=mod.__dict__)
            prb.subscribe(lambda d: stream.extend(d.items()))
            with prb:
                res = progrun.drive(mod, getattr(mod, fn["name"]), args, script, gscript)
        except BaseException as e:  # noqa
            chk.violation("oracle", "probing the meta-variables failed: %s: %s" % (type(e).__name__, str(e)[:120]),
                          {"source": src, "args": args, "script": script, "gen_script": gscript})
            pyprog.drop_module(mod)
            continue
        pyprog.drop_module(mod)
        stats["programs"] += 1
        stats["events"] += len(stream)
        names = [n for n, _ in stream]
        chk.count(src + json.dumps([args, script, gscript]),
                  nontrivial=any(n not in ("#enter", "#exit", "#value") for n in names))
        for kd in ("outcome:" + res["outcome"][0],) + tuple(set(names)):
            chk.dist(kd if not kd.startswith("#loop_") and not kd.startswith("#endloop_") else kd.split("_")[0])
        if fn["generator"] and not stream and not any(y[0] in ("y", "stop") for y in res["yields"]) \
                and not res["log"]:
            continue        # the generator object was closed or dropped before its body ever started
        problems = check_stream(stream, res, loops, fn, gscript)
        if problems:
            replay = {"source": src, "args": args, "script": script, "gen_script": gscript,
                      "stream": [(n, progrun.plain(v) if not isinstance(v, BaseException) else type(v).__name__)
                                 for n, v in stream], "outcome": res["outcome"], "yields": res["yields"]}
            only_value = all("#value" in p for p in problems)
            if only_value and has_exit_in_finally(fn) and chk.is_known("F7c"):
                chk.known_finding("F7c", "a return whose value was reported is then cancelled / replaced by a "
                                  "return, break or continue inside a finally clause: %s" % problems[0][:120])
                stats["known"]["F7c"] = stats["known"].get("F7c", 0) + 1
            elif problems == ["#value although the activation ended by raising"] and has_return_under_finally(fn) \
                    and chk.is_known("F7d"):
                chk.known_finding("F7d", "a return under a finally clause reported its value, then the finally clause "
                                  "raised: %s" % str(res["outcome"])[:100])
                stats["known"]["F7d"] = stats["known"].get("F7d", 0) + 1
            elif only_value and len(problems) == 1 and problems[0].startswith("normal completion") \
                    and has_return_under_finally(fn) and chk.is_known("F7d") \
                    and [progrun.plain(v) for n, v in stream if n == "#value"][-1:] == [res["outcome"][1]]:
                # the same abandoned return: the exception raised by its finally clause was swallowed further out (a
                # with block, an enclosing handler) and the function went on to return something else
                chk.known_finding("F7d", "a return under a finally clause reported its value, the finally clause raised, "
                                  "the exception was swallowed further out and the function returned later: %s" % problems[0][:100])
                stats["known"]["F7d"] = stats["known"].get("F7d", 0) + 1
            else:
                chk.violation("oracle", "meta-event stream violates the bracket discipline: %s" % "; ".join(problems)[:300],
                              replay)
        if i % 50 == 0:
            chk.sample({"source": src, "stream": names, "outcome": res["outcome"]})
    witness(chk)
    witness_d(chk)
    chk.cov["oracle"]["streams"] = stats


def replay(chk, path):
    data = json.load(open(path))
    for v in data.get("violations", []):
        print("replay:", v["what"][:300]); print(v["replay"].get("source", "")[:800])
    return 1 if data.get("violations") else 0
