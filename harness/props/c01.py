"""C01 — instrumentation is transparent when nothing is overridden.

proof leg      Props/C01.lean
correspondence (a) the rewritten AST produced by ptera.transform vs the Lean `instrument` model
oracle         differential execution: untouched function vs tooled / tooled in place / probed on a
               random subset of its variables: result or exception, yielded/received sequence, ordered
               log of the opaque helper calls, final state of a mutable object and of module globals
"""
import json

import core
import m2corr
import pylite
import progrun
import pyprog


def variants(rng, fn):
    names = pylite.bound_names(fn)
    out = [("tooled", None), ("inplace", None)]
    if names:
        for _ in range(2):
            k = rng.randrange(1, min(3, len(names)) + 1)
            out.append(("probing", rng.sample(names, k)))
    return out


def run_variant(kind, sel_vars, src, fn, args, script, gscript, tag):
    import ptera
    mod = progrun.make(src, "verif_c01_%s" % tag)
    f = getattr(mod, fn["name"])
    try:
        if kind == "tooled":
            g = ptera.tooled(f)
            return progrun.drive(mod, g, args, script, gscript)
        if kind == "inplace":
            ptera.tooled.inplace(f)
            return progrun.drive(mod, f, args, script, gscript)
        sel = "%s(%s) > %s" % (fn["name"], ", ".join(sel_vars[:-1]), sel_vars[-1]) if len(sel_vars) > 1 \
            else "%s > %s" % (fn["name"], sel_vars[0])
        with ptera.probing(sel, env=mod.__dict__):
            return progrun.drive(mod, f, args, script, gscript)
    except BaseException as e:  # noqa  (activation itself failed)
        return {"activation_error": [type(e).__name__, str(e)[:120]]}
    finally:
        pyprog.drop_module(mod)


def compare(chk, fn, src, args, script, gscript, stats, label, known_classifier):
    base_mod = progrun.make(src, "verif_c01_base")
    base = progrun.drive(base_mod, getattr(base_mod, fn["name"]), args, script, gscript)
    pyprog.drop_module(base_mod)
    kinds = pylite.stmt_kinds(fn)
    for kind, sel_vars in variants(chk.rng, fn):
        got = run_variant(kind, sel_vars, src, fn, args, script, gscript, kind)
        stats["runs"] += 1
        if got == base:
            continue
        what = "activation failed: %s" % got["activation_error"] if "activation_error" in got else \
            "; ".join("%s: %r vs %r" % (k, str(base[k])[:90], str(got[k])[:90]) for k in base if got.get(k) != base[k])
        replay = {"source": src, "args": args, "script": script, "gen_script": gscript, "variant": kind,
                  "selector_vars": sel_vars, "untouched": base, "instrumented": got}
        fid = known_classifier(fn, kinds, base, got, kind, sel_vars)
        if fid and chk.is_known(fid):
            chk.known_finding(fid, "%s (%s) differs from the untouched function: %s" % (kind, sel_vars, what[:160]))
            stats["known"][fid] = stats["known"].get(fid, 0) + 1
        else:
            chk.violation("oracle", "%s%s differs from the untouched function: %s" % (
                kind, "" if not sel_vars else " on %s" % sel_vars, what[:300]), replay)


def no_known(fn, kinds, base, got, kind, sel_vars):
    return None


# generators that delegate (`yield from`): what the driver sends — falsy values included —, throws and closes goes
# to the sub-generator exactly as in the untouched function
DELEGATING = [
    {"name": "f", "params": ["a"], "generator": True, "body": [
        ("yieldfrom", "x", "SUB(1, 3)"), ("yield", None, "x"), ("yieldfrom", None, "T(2, 'list', 2)"),
        ("return", "x")]},
    {"name": "f", "params": [], "generator": True, "body": [
        ("for", ("name", "i"), "T(1, 'list', 2)", [("yieldfrom", "y", "SUB(2, 2)"), ("expr", "H(3, y, i)")], []),
        ("try", [("yieldfrom", "z", "SUB(4, 2)")], [("Boom", "e", [("yield", None, "H(5)")])], [], [("expr", "H(6)")]),
        ("return", "z")]},
]


# the value of a chained assignment is evaluated once — also when it is a bare attribute read whose evaluation
# counts (`O.tick`), or whose base an earlier target re-binds (the random programs reach these now and then)
STAGED = [
    {"name": "f", "params": ["a"], "generator": False, "body": [
        ("assign", [("name", "b"), ("name", "c")], "O.tick"),
        ("assign", [("name", "d"), ("name", "a"), ("name", "e")], "O.tick"),
        ("return", "H(1, b, c, d, a, e, O.tick)")]},
    {"name": "f", "params": ["a"], "generator": False, "body": [
        ("assign", [("attr", "O", "a")], "H(1, a)"),
        ("for", ("name", "i"), "T(2, 'list', 2)", [("assign", [("name", "b"), ("attr", "O", "b"), ("name", "c")], "O.tick")], []),
        ("assign", [("name", "d"), ("name", "e")], "O.a"),
        ("return", "H(3, b, c, d, e, O.b)")]},
]


def staged(chk, rng, stats):
    for fn in STAGED:
        src = pylite.render(fn)
        for _ in range(3 if chk.tier == "quick" else 20):
            args = [rng.randrange(0, 9) for _ in fn["params"]]
            chk.count(src + json.dumps(args), nontrivial=True)
            chk.dist("staged: chained assignment from an attribute read")
            compare(chk, fn, src, args, [True] * 12, None, stats, "staged", no_known)


def delegation(chk, rng, stats):
    sends = [0, "", False, None, 3, [], "s", 7]
    n = 6 if chk.tier == "quick" else 80
    for fn in DELEGATING:
        src = pylite.render(fn)
        for _ in range(n):
            gscript = [["next"]]
            for _ in range(rng.randrange(2, 8)):
                r = rng.random()
                if r < 0.65:
                    gscript.append(["send", rng.choice(sends)])
                elif r < 0.8:
                    gscript.append(["next"])
                elif r < 0.87:
                    gscript.append(["throw", rng.randrange(0, 9)])
                elif r < 0.93:
                    gscript.append(["throwq", rng.randrange(0, 9)])
                else:
                    gscript.append(["close"])
                    break
            args = [rng.randrange(0, 9) for _ in fn["params"]]
            chk.count(src + json.dumps(gscript), nontrivial=True)
            chk.dist("delegating-generator")
            compare(chk, fn, src, args, [True] * 12, gscript, stats, "delegating", no_known)


def run(chk):
    m2corr.ast_leg(chk, 120 if chk.tier == "quick" else 2500)
    m2corr.exec_leg(chk, 100 if chk.tier == "quick" else 2000)
    rng = chk.rng
    chk.cov["rule"] = (
        "generated functions and generators over the statement forms ptera rewrites or passes through "
        "(name / tuple / nested tuple / starred / attribute / subscript / chained / augmented / annotated "
        "assignment, for, while, if, try/except/finally, with, walrus, imports, nested def/class, lambda, "
        "comprehension, return, yield, raise, break/continue), opaque logged helper calls as expressions, "
        "scripted conditions (all paths), iterables of every kind and wrong lengths as unpacking sources; each "
        "program x 1 input x {tooled, tooled.inplace, 2 probes on random variable subsets}; "
        "non-trivial = the untouched run executes at least three logged operations")
    stats = {"programs": 0, "runs": 0, "known": {}}
    n = 120 if chk.tier == "quick" else 3000
    for i in range(n):
        gen = pylite.Gen(rng, weights={"yieldfrom": 2})
        fn = gen.function(generator=rng.random() < 0.25, size=rng.randrange(4, 12))
        src = pylite.render(fn)
        if rng.random() < 0.2 and "GLOB1" in src:
            # the function is a closure; now and then the cell it reads is still empty when it is called
            empty = rng.random() < 0.4
            src = m2corr.closure_of(src, empty=empty)
            chk.dist("closure:" + ("empty cell" if empty else "filled cell"))
        args, script, gscript = progrun.gen_inputs(rng, fn)
        stats["programs"] += 1
        for kd in pylite.stmt_kinds(fn):
            chk.dist(kd)
        base_probe = progrun.make(src, "verif_c01_probe")
        b = progrun.drive(base_probe, getattr(base_probe, fn["name"]), args, script, gscript)
        pyprog.drop_module(base_probe)
        chk.count(src + json.dumps([args, script, gscript]), nontrivial=len(b["log"]) >= 3)
        chk.dist("outcome:" + b["outcome"][0] + (":" + b["outcome"][1] if b["outcome"][0] == "exc" else ""))
        compare(chk, fn, src, args, script, gscript, stats, "generated", no_known)
        if i % 40 == 0:
            chk.sample({"source": src, "args": args, "script": script, "gen_script": gscript})
    chk.cov["oracle"]["differential"] = stats
    delegation(chk, rng, stats)
    staged(chk, rng, stats)
    globals_between_calls(chk, rng)


GSRC = '''
SHIFT = 1
SEP = None

def f(x):
    r = abs(x) + max(x, 1)
    t = SHIFT if x > 100 else 0
    u = "-" if SEP is None else SEP
    return (r, len([x]), t, u)
'''


def globals_between_calls(chk, rng):
    """names the function reads from the module or the builtins are (re)bound, shadowed and deleted BETWEEN its
    calls (the documented exception is a name rebound WHILE the call is running): every call of the
    instrumented function does what the untouched one does at that moment"""
    import ptera
    ops_pool = [("set", "abs", 7), ("set", "abs", 9), ("del", "abs"), ("set", "max", 3), ("del", "max"),
                ("set", "SHIFT", 5), ("del", "SHIFT"), ("set", "SHIFT", None), ("set", "SHIFT", 0),
                ("set", "SEP", "+"), ("set", "SEP", None), ("set", "SEP", 0), ("del", "SEP"),
                ("call", -4), ("call", 2), ("call", 200), ("call", -1)]
    n = 40 if chk.tier == "quick" else 800
    stats = {"sequences": 0, "calls": 0}
    for i in range(n):
        seq = [("call", -3)] + [rng.choice(ops_pool) for _ in range(rng.randrange(3, 9))] + [("call", -5)]
        kind = rng.choice(["tooled", "inplace", "probe:r", "probe:t", "probe:x"])

        def play(mod, fcall):
            out = []
            for op in seq:
                if op[0] == "set":
                    setattr(mod, op[1], (lambda k: (lambda *a: k))(op[2]) if op[1] in ("abs", "max") else op[2])
                elif op[0] == "del":
                    if hasattr(mod, op[1]):
                        delattr(mod, op[1])
                else:
                    try:
                        out.append(fcall(op[1]))
                    except NameError:
                        # (an unset global read by the function: NameError, or its subclass UnboundLocalError from
                        # the rewritten code — the documented difference, normalised as everywhere else)
                        out.append("NameError family")
                    except Exception as e:
                        out.append("%s: %s" % (type(e).__name__, e))
            return out
        base_mod = pyprog.make_module(GSRC, "verif_c01_gbase")
        base = play(base_mod, base_mod.f)
        pyprog.drop_module(base_mod)
        mod = pyprog.make_module(GSRC, "verif_c01_ginst")
        try:
            if kind == "tooled":
                g = ptera.tooled(mod.f)
                got = play(mod, g)
            elif kind == "inplace":
                ptera.tooled.inplace(mod.f)
                got = play(mod, mod.f)
            else:
                with ptera.probing("f > %s" % kind.split(":")[1], env=mod.__dict__):
                    got = play(mod, mod.f)
        except Exception as e:
            got = "activation: %s: %s" % (type(e).__name__, e)
        finally:
            pyprog.drop_module(mod)
        stats["sequences"] += 1
        stats["calls"] += sum(1 for o in seq if o[0] == "call")
        chk.count(("globals", kind, tuple(seq)), nontrivial=any(o[0] != "call" for o in seq))
        chk.dist("globals-between-calls:" + kind.split(":")[0])
        if got != base:
            chk.violation("oracle", "%s: with module globals (re)bound between the calls the instrumented function "
                          "gives %r, the untouched one %r" % (kind, got, base),
                          {"source": GSRC, "sequence": seq, "variant": kind, "untouched": base, "instrumented": got})
    chk.cov["oracle"]["globals_between_calls"] = stats


def replay(chk, path):
    data = json.load(open(path))
    for v in data.get("violations", []):
        print("replay:", v["what"][:300]); print(v["replay"].get("source", "")[:800])
    return 1 if data.get("violations") else 0
