"""C18 — malformed selectors are rejected with a syntax or selector error.

proof leg      Props/C18.lean (lexer progress, parser loop total for every table, evaluator total)
correspondence lex / parse tree / parse / _select of the model vs ptera on every string of
               <= N tokens over a 32-token alphabet, random longer strings, Unicode whitespace
oracle         exception class of parse(), select(env) and probing(...).__enter__() on the
               implementation for the same strings and for grammar mutations
"""
import json
import os

import core
import selcorr


def mk_env():
    import ptera
    import pyprog
    from ptera import tools
    mod = pyprog.make_module(
        "def f(x=0, *args, **kw):\n    a = x\n    return a\n\n"
        "def g(x=0, *args, **kw):\n    b: '@T' = x\n    return b\n\n"
        "class K:\n    def m(self, x=0):\n        a = x\n        return a\n\n"
        "k = K()\n", "verif_c18")
    env = {"f": mod.f, "x": mod.g, "a": 3, "K": mod.K, "k": mod.k, "T": ptera.tag.T,
           "every": tools.every, "zero": 0, "no": False, "empty": ""}
    return mod, env


def classify(fn):
    try:
        fn()
        return {"ok": True}
    except RecursionError:
        return {"err": "RecursionError"}
    except BaseException as e:  # noqa
        # a value expression of the selector CALLS an object of the environment (`x~every(3)()`): what that call
        # raises is the environment's, not an internal error of the compiler
        import traceback
        fr = [f for f in traceback.extract_tb(e.__traceback__) if f.filename.endswith(os.path.join("ptera", "selector.py"))]
        if fr and fr[-1].name == "eval" and "fn(*args, **kwargs)" in (fr[-1].line or "") \
                and not isinstance(e, (SyntaxError,)) and type(e).__name__ not in ("SelectorError", "CodeNotFoundError"):
            return {"err": "EnvCall", "msg": "%s: %s" % (type(e).__name__, e)}
        return selcorr.err(e)


ENVCALL = {"EnvCall"}
REFUSALS = selcorr.ALLOWED | {"ValueError:focus", "Exception:overridable", "TypeError:tooled"} | ENVCALL


def classify_probe(s, env, overridable=False, probe_type=None, more=()):
    """create + activate + deactivate a probe (on selector s, and on the selectors `more` as well); exception class
    of the refusal"""
    import ptera
    try:
        prb = ptera.probing(*more[:1], s, *more[1:], env=env, overridable=overridable, probe_type=probe_type)
        prb.__enter__()
        prb.__exit__(None, None, None)
        return {"ok": True}
    except BaseException as e:  # noqa
        r = selcorr.err(e)
        if r["err"] == "ValueError" and "Unsupported focus pattern" in r.get("msg", ""):
            return {"err": "ValueError:focus"}
        if r["err"] == "Exception" and ("OverridableProbe must use" in r.get("msg", "")
                                         or "OverridableProbe requires" in r.get("msg", "")):
            return {"err": "Exception:overridable"}
        if r["err"] == "TypeError" and ("cannot be tooled" in r.get("msg", "") or "only works on functions" in r.get("msg", "")):
            return {"err": "TypeError:tooled"}
        return r


def strip_msg(r):
    return {k: v for k, v in r.items() if k != "msg"}


def mutate(rng, s):
    toks = selcorr.ALPHABET + ["(", ")", ",", ">", "!", " as ", "=",
                               # compound fragments: operands that are themselves bracketed lists / calls
                               "(f, a)", "(f)", "(f, a)(x)", "(a)(x)", ")(", "()", "f()(a)", "(f > a)", "(x, a)"]
    s = list(s)
    for _ in range(rng.randrange(1, 4)):
        k = rng.choice(["del", "ins", "rep", "dup"])
        i = rng.randrange(0, len(s) + 1)
        if k == "del" and s:
            del s[min(i, len(s) - 1)]
        elif k == "ins":
            s[i:i] = list(rng.choice(toks))
        elif k == "rep" and s:
            j = min(i, len(s) - 1)
            s[j:j + 1] = list(rng.choice(toks))
        elif k == "dup" and s:
            j = min(i, len(s) - 1)
            s[j:j] = s[j:j + rng.randrange(1, 4)]
    return "".join(s)


DEFECTIVE = [
    # (selector, overridable, what must be refused)
    ("f > #foo", False, "unknown meta-variable"),
    ("f(#loopy) > a", False, "unknown meta-variable"),
    ("f > a:a", False, "category that is not a tag"),
    ("f(x:a) > a", False, "category that is not a tag"),
    ("f:0 > a", False, "category that is not a tag (a falsy constant)"),
    ("f:'' > a", False, "category that is not a tag (a falsy constant)"),
    ("f:zero > a", False, "category that is not a tag (a name bound to 0)"),
    ("f:no > a", False, "category that is not a tag (a name bound to False)"),
    ("f:empty > a", False, "category that is not a tag (a name bound to '')"),
    ("f > a:0", False, "category that is not a tag (a falsy constant)"),
    ("f(x:zero) > a", False, "category that is not a tag (a name bound to 0)"),
    ("x > f:0(x) > a", False, "category that is not a tag (a falsy constant, on a nested call)"),
    ("nope > a", False, "unresolvable function name"),
    ("f > nope > a", False, "unresolvable function name"),
    ("K.nope > a", False, "unresolvable function name"),
    ("/no.such.module/fn > a", False, "unresolvable function name"),
    ("f(!!a)", False, "second-focus mark without a first"),
    ("f(x, !!a)", False, "second-focus mark without a first"),
    ("f(a)", True, "no focus where overriding requires one"),
    ("f(x, a)", True, "no focus where overriding requires one"),
    ("f > zzz", False, "variable that occurs nowhere in the function"),
    ("a > x", False, "object that is not a function"),
]
WELLFORMED = ["f > a", "f(x) > a", "f(!a)", "f(!x, !!a)", "x > $v:@T", "K.m > a", "k.m > a",
              "f(x=1) > a", "f(x~every(2)) > a", "f() as r", "f > #value", "f(#enter, !a)"]


def run(chk):
    rng = chk.rng
    mod, env = mk_env()
    drv = chk.open_driver()
    N = 3 if chk.tier == "quick" else 4
    strs = list(selcorr.enumerate_strings(selcorr.ALPHABET, N))
    n_enum = len(strs)
    pool = selcorr.ALPHABET + selcorr.EXTRA_CHARS
    for _ in range(4000 if chk.tier == "quick" else 60000):
        strs.append("".join(rng.choice(pool) for _ in range(rng.randrange(1, 10))))
    n_rand = len(strs) - n_enum
    for _ in range(3000 if chk.tier == "quick" else 60000):
        base = selcorr.gen_call(rng, rng.randrange(0, 3), True)
        strs.append(mutate(rng, base) if rng.random() < 0.8 else selcorr.respace(rng, base))
    # call syntax applied to bracketed operands (too long for the exhaustive part)
    strs += ["(f, a)(x)", "(f, a)()", "f > (a, f)(x)", "f((a, f)(x), !a)", "(f)(x)", "f((x, a))", "(a,f) > x",
             "(f, a)(x) > x", "((f, a))(x)", "(f, a)(x, !a)", "(f > a)(x)", "f(x)(a)", "f()()"]
    # keyword arguments of a value call whose key is not a plain name (too long for the exhaustive part)
    strs += ["f(x=every(every()=1)) > a", "f(x=every(a=1=2)) > a", "f(x~every(f(x)=1)) > a", "f(x=every((a)=2)) > a",
             "f(x=every(2=2)) > a", "f(x=every(a=1)) > a", "f(x=every(!a=1)) > a", "f(x=every(a as x=1)) > a",
             "f(x=every(a:T=1)) > a", "f(x=every($v=1)) > a", "f(x=every(every(2)=every(2))) > a"]
    # absolute references whose module part cannot be imported at all
    strs += ["/. > x", "/.. > x", "/.a/f > x", "/ > x", "//f > x", "/a..b/f > x", "/1/2 > x", "/./f(x) > a", "f > /. > x"]
    n_mut = len(strs) - n_enum - n_rand
    chk.cov["rule"] = (
        "every string of <= %d tokens over the %d-token selector alphabet (exhaustive), %d random strings "
        "over alphabet + Unicode/whitespace/quote characters, %d grammar mutations of valid selectors; each "
        "string is lexed, parsed and compiled by model and implementation (4 comparisons) and its exception "
        "class is checked for parse / select(env) / probing(env). distinct_nontrivial counts distinct strings "
        "that reach the evaluator (tokenise and parse without an invalid-token error)" % (
            N, len(selcorr.ALPHABET), n_rand, n_mut))
    chk.cov["exhaustive"] = True
    chk.cov["correspondence"] = {"strings": len(strs), "ops": ["lex", "ptree", "parse", "select0"], "disagreements": 0}
    seen = set()
    for op in ("lex", "ptree", "parse", "select0"):
        model = drv.ask_many([selcorr.req(op, s) for s in strs])
        for s, m in zip(strs, model):
            i = selcorr.IMPL[op](s)
            if m != strip_msg(i):
                chk.cov["correspondence"]["disagreements"] += 1
                if chk.cov["correspondence"]["disagreements"] <= 30:
                    chk.violation("correspondence", "%s(%r): model and implementation differ" % (op, s),
                                  {"op": op, "string": s, "model": m, "impl": i})
            if op == "parse":
                cls = i.get("err", "ok")
                chk.dist("parse:" + cls)
                nontrivial = not (cls == "SyntaxError" and "Invalid token" in i.get("msg", ""))
                if s not in seen:
                    seen.add(s)
                    chk.count(s, nontrivial=nontrivial)
                # oracle (1): parse never fails with an internal error
                if "err" in i and i["err"] not in selcorr.ALLOWED:
                    chk.violation("oracle", "parse(%r) raised %s: %s" % (s, i["err"], i.get("msg")),
                                  {"call": "parse", "string": s, "raised": i})
    # oracle (2): select against a fixed environment; (3) probe creation/activation
    n_sel = n_probe = 0
    from ptera.selector import select
    for s in strs:
        r = classify(lambda: select(s, env=env))
        n_sel += 1
        chk.dist("select:" + r.get("err", "ok"))
        if "err" in r and r["err"] not in selcorr.ALLOWED | ENVCALL:
            chk.violation("oracle", "select(%r) raised %s: %s" % (s, r["err"], r.get("msg")),
                          {"call": "select", "string": s, "raised": r})
        elif "ok" in r:
            p = classify_probe(s, env)
            n_probe += 1
            chk.dist("probing:" + p.get("err", "ok"))
            if "err" in p and p["err"] not in REFUSALS:
                chk.violation("oracle", "probing(%r) raised %s: %s" % (s, p["err"], p.get("msg")),
                              {"call": "probing", "string": s, "raised": p})
    # oracle (4): the defective selectors named by the property are refused, the well-formed accepted
    for s, ov, what in DEFECTIVE:
        # whatever kind of probe is asked for (the default picks one from the selector)
        for ptype in (None, "immediate", "total"):
            p = classify_probe(s, env, overridable=ov, probe_type=ptype)
            chk.count(("defective", s, ptype))
            if "ok" in p:
                chk.violation("oracle", "probing(%r, probe_type=%r) was accepted although it has a %s" % (s, ptype, what),
                              {"call": "probing", "string": s, "overridable": ov, "probe_type": ptype})
            elif p["err"] not in REFUSALS:
                chk.violation("oracle", "probing(%r, probe_type=%r) raised %s: %s" % (s, ptype, p["err"], p.get("msg")),
                              {"call": "probing", "string": s, "overridable": ov, "probe_type": ptype, "raised": p})
        # … and when the probe has other, well-formed selectors next to it (before or after)
        if not ov:
            for more in (("f > a",), ("f(!x, !!a)", "f > a")):
                p = classify_probe(s, env, more=more)
                chk.count(("defective", s, "with", more))
                if "ok" in p:
                    chk.violation("oracle", "probing(%s) was accepted although %r has a %s" % (
                        ", ".join(map(repr, more[:1] + (s,) + more[1:])), s, what),
                        {"call": "probing", "string": s, "other_selectors": list(more)})
    for s in WELLFORMED:
        p = classify_probe(s, env)
        chk.count(("wellformed", s))
        if "err" in p:
            chk.violation("oracle", "well-formed probing(%r) was refused: %s" % (s, p),
                          {"call": "probing", "string": s, "raised": p})
    # oracle (5) + correspondence: meta-variable names — exactly the documented ones and the loop markers
    from ptera.selector import _valid_hashvars
    names = set(_valid_hashvars) | {"#loop_i", "#endloop_i", "#loop_", "#endloop_", "#loop", "#endloop", "#", "#x"}
    for hv in _valid_hashvars:
        for sfx in ("s", "2", "_", "ed", ".real", "x"):
            names.add(hv + sfx)
        names.add(hv[:-1])
        names.add(hv.upper())
        names.add("#" + hv)
    for _ in range(60 if chk.tier == "quick" else 600):
        names.add("#" + "".join(rng.choice("abelnortuvxy_") for _ in range(rng.randrange(1, 7))))
    names = sorted(names)
    model_hv = drv.ask_many([{"op": "hashvar", "s": n} for n in names])
    n_hv_bad = 0
    for n, m in zip(names, model_hv):
        ok_doc = n in _valid_hashvars or n.startswith("#loop_") or n.startswith("#endloop_")
        res = classify_probe("f > %s" % n, env)
        accepted = "ok" in res
        chk.count(("hashvar", n))
        if accepted != m["accepted"]:
            n_hv_bad += 1
            chk.violation("correspondence", "meta-variable %r: model says accepted=%s, implementation %s" % (
                n, m["accepted"], res), {"call": "probing", "string": "f > %s" % n, "model": m, "impl": res})
        if accepted and not ok_doc:
            chk.violation("oracle", "probing('f > %s') is accepted although %s is not a documented meta-variable "
                          "(it would silently never match)" % (n, n), {"call": "probing", "string": "f > %s" % n})
        elif not accepted and (ok_doc or res.get("err") not in REFUSALS):
            chk.violation("oracle", "probing('f > %s') -> %s" % (n, res), {"call": "probing", "string": "f > %s" % n,
                                                                           "raised": res})
    chk.cov["correspondence"]["hashvar_names"] = {"names": len(names), "disagreements": n_hv_bad}
    chk.cov["oracle"] = {"parse": len(strs), "select": n_sel, "probing": n_probe,
                         "defective": len(DEFECTIVE), "wellformed": len(WELLFORMED)}
    chk.sample({"string": strs[n_enum // 2], "parse": selcorr.impl_parse(strs[n_enum // 2])})
    chk.sample({"string": strs[-1], "parse": selcorr.impl_parse(strs[-1])})
    chk.sample({"string": "f(a) > g(!b as c:@T=1)", "model": drv.ask(selcorr.req("parse", "f(a) > g(!b as c:@T=1)"))})
    chk.assumptions += [
        "exceptions raised inside user-supplied callables of the environment (value expressions such as x~p(1)) are user code, not ptera: the check's environment only contains total callables",
        "CodeNotFoundError (ptera.utils) is counted as the selector-resolution error for /module/path references, as the repository's own tests do",
    ]


def replay(chk, path):
    data = json.load(open(path))
    mod, env = mk_env()
    from ptera.selector import parse, select
    bad = 0
    for v in data.get("violations", []):
        r = v["replay"]
        s = r.get("string")
        if r.get("call") == "parse":
            got = classify(lambda: parse(s))
        elif r.get("call") == "select":
            got = classify(lambda: select(s, env=env))
        else:
            got = classify_probe(s, env, r.get("overridable", False))
        print("replay %s(%r) -> %s" % (r.get("call"), s, got))
        if "ok" in got or got.get("err") not in REFUSALS:
            bad += 1
    return 1 if bad else 0
