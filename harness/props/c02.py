"""C02 — a probe's stream is exactly the binding history of its focus variable.

proof leg      Props/C02.lean
oracle         probing(f(ctx…) > x).values() vs the binding log of an independently generated twin of the
               same program (BL(name, value) after every binding Python makes), for every choice of
               focus and context variables among the function's names
"""
import json

import core
import m2corr
import pylite
import progrun
import pyprog


def expected_events(blog, clog, focus, ctx):
    """one event per binding of the focus; the other captures with the value they have at that moment (the
    state of the object then: a list bound earlier may have been extended in place since)"""
    out = []
    for (name, value), now in zip(blog, clog):
        if name == focus:
            ev = {focus: value}
            for c in ctx:
                if c in now and c != focus:
                    ev[c] = now[c]
            out.append(ev)
    return out


def run_program(chk, fn, src, twin_src, args, script, gscript, stats, forced=None):
    import ptera
    names = pylite.bound_names(fn)
    if not names:
        return
    rng = chk.rng
    # the function may be reached through a caller that calls it twice: the selector then names the caller first
    # (outer_w > f(ctx) > x); each call of f is a call of its own — a context variable not bound yet in the second
    # call is omitted, whatever the first call left behind
    via = fn["name"] != "outer_w" and not fn["generator"] and gscript is None and rng.random() < 0.3
    wrapper = "\ndef outer_w(*a):\n    %s(*a)\n    return %s(*a)\n" % (fn["name"], fn["name"]) if via else ""
    entry = "outer_w" if via else fn["name"]
    tmod = progrun.make(twin_src + wrapper, "verif_c02_twin")
    tres = progrun.drive(tmod, getattr(tmod, entry), args, script, gscript)
    blog = [(n, v) for n, v in tmod.BLOG]
    clog = list(tmod.CLOG)
    pyprog.drop_module(tmod)
    choices = []
    for _ in range(min(4, len(names))):
        focus = rng.choice(names)
        ctx = rng.sample([n for n in names if n != focus], min(len(names) - 1, rng.randrange(0, 3)))
        choices.append((focus, ctx))
    for focus, ctx in (forced or choices):
        sel = "%s(%s) > %s" % (fn["name"], ", ".join(ctx), focus) if ctx else "%s > %s" % (fn["name"], focus)
        if via:
            sel = "outer_w > " + sel
            chk.dist("selector:through-a-caller")
        mod = progrun.make(src + wrapper, "verif_c02_impl")
        raw = rng.random() < 0.25
        kept = []
        try:
            got = []
            probe = ptera.probing(sel, env=mod.__dict__, raw=raw)
            # the values as they are when the event is delivered (lists can be extended in place later)
            if raw:
                # raw events carry capture objects: the consumer may keep them and read them after the call
                probe.subscribe(lambda e: (kept.append(e), got.append({k: progrun.plain(c.value) for k, c in e.items()})))
            else:
                probe.subscribe(lambda e: got.append({k: progrun.plain(v) for k, v in e.items()}))
            with probe:
                res = progrun.drive(mod, getattr(mod, entry), args, script, gscript)
            if raw:
                chk.dist("events:raw")
                later = [{k: progrun.plain(c.value) for k, c in e.items()} for e in kept]
                for i, (a, b) in enumerate(zip(got, later)):
                    same = all(a.get(k) == b.get(k) for k in set(a) | set(b)
                               if not isinstance(a.get(k), (list, dict)) and not isinstance(b.get(k), (list, dict)))
                    if not same:
                        chk.violation("oracle", "probing(%r, raw=True): event %d showed %s when it was delivered and shows %s "
                                      "after the call" % (sel, i, str(a)[:100], str(b)[:100]),
                                      {"source": src, "selector": sel, "args": args, "script": script, "gen_script": gscript,
                                       "delivered": got, "read_later": later})
                        break
        except BaseException as e:  # noqa
            got = "activation/run failed: %s: %s" % (type(e).__name__, str(e)[:100])
            res = None
        finally:
            pyprog.drop_module(mod)
        want = [{k: progrun.plain(v) for k, v in e.items()} for e in expected_events(blog, clog, focus, ctx)]
        stats["selectors"] += 1
        stats["events"] += len(want)
        chk.count(src + sel + json.dumps([args, script, gscript]), nontrivial=len(want) >= 1)
        if got != want:
            chk.violation("oracle", "probing(%r) delivered %s, the function binds %s %d time(s): %s" % (
                sel, str(got)[:150], focus, len(want), str(want)[:150]),
                {"source": src, "selector": sel, "args": args, "script": script, "gen_script": gscript,
                 "delivered": got, "binding_history": want})
        elif res is not None and res != tres and False:
            pass


def run(chk):
    m2corr.ast_leg(chk, 80 if chk.tier == "quick" else 1500)
    m2corr.exec_leg(chk, 120 if chk.tier == "quick" else 2500)
    rng = chk.rng
    chk.cov["rule"] = (
        "generated functions and generators (same program space as C01) x up to 4 choices of focus variable "
        "and 0-2 context variables among the names the function binds x 1 input; the twin logs parameters at "
        "entry, plain / tuple / starred / nested / chained / augmented / annotated assignments, loop targets, "
        "with-targets, exception names, imports, assignment expressions, nested def/class names and values "
        "received by `t = yield v`; non-trivial = the focus is bound at least once on the executed path")
    stats = {"programs": 0, "selectors": 0, "events": 0}
    n = 100 if chk.tier == "quick" else 2500
    for i in range(n):
        gen = pylite.Gen(rng, weights={"yieldfrom": 1})
        fn = gen.function(generator=rng.random() < 0.25, size=rng.randrange(4, 12))
        src = pylite.render(fn)
        twin = pylite.render(fn, twin=True)
        args, script, gscript = progrun.gen_inputs(rng, fn)
        stats["programs"] += 1
        for kd in pylite.stmt_kinds(fn):
            chk.dist(kd)
        run_program(chk, fn, src, twin, args, script, gscript, stats)
        if i % 40 == 0:
            chk.sample({"source": src, "twin": twin, "args": args, "script": script, "gen_script": gscript})
    chk.cov["oracle"]["twin"] = stats
    directed(chk)
    equal_but_different(chk, rng)
    dotted_imports(chk, rng)
    overlapping_probes(chk, rng)


# every position at which Python binds a name, once, with the focus `x` bound THERE (the random programs reach the
# rarer positions — the else clause of a loop, a handler, a finally clause — only now and then)
def _fn(body, params=()):
    return {"name": "f", "params": list(params), "body": body, "generator": False}


DIRECTED = [
    ("else clause of for", _fn([
        ("for", ("name", "i"), "T(1, 'list', 2)", [("assign", [("name", "y")], "H(2, i)")],
         [("assign", [("name", "x")], "H(3)"), ("aug", ("name", "x"), "+", "1")]),
        ("return", "x")])),
    ("loop target and walrus in the else clause of for", _fn([
        ("for", ("name", "i"), "T(1, 'list', 1)", [("pass",)],
         [("for", ("name", "x"), "T(2, 'list', 2)", [("expr", "H(3, x)")], []),
          ("walrus", "y", "x", "H(4)"), ("walrus", "y", "x", "H(5, y)", "aug")]),
        ("return", "x")])),
    ("else clause of for in a generator-free loop left by break: not run", _fn([
        ("for", ("name", "i"), "T(1, 'list', 2)", [("break",)], [("assign", [("name", "x")], "H(2)")]),
        ("assign", [("name", "x")], "H(3)"),
        ("return", "x")])),
    ("exception name and handler body", _fn([
        ("try", [("expr", "R(1)")], [("Boom", "x", [("assign", [("name", "y")], "H(2)")]),], [], []),
        ("try", [("expr", "R(3)")], [("Boom", None, [("assign", [("name", "x")], "H(4)")]),], [], []),
        ("return", "y")])),
    ("else and finally clauses of try", _fn([
        ("try", [("assign", [("name", "y")], "H(1)")], [("Boom", None, [("pass",)])],
         [("assign", [("name", "x")], "H(2, y)")], [("aug", ("name", "x"), "*", "2")]),
        ("return", "x")])),
    ("with target and body", _fn([
        ("with", "CM(1)", "x", [("assign", [("name", "y")], "H(2)"), ("assign", [("name", "x")], "H(3, y)")]),
        ("return", "x")])),
    ("while body and both branches of if", _fn([
        ("assign", [("name", "x")], "a"),
        ("while", "C(1)", [("aug", ("name", "x"), "+", "3")]),
        ("if", "C(2)", [("assign", [("name", "x")], "H(3, x)")], [("ann", "x", "int", "H(4, x)")]),
        ("return", "x")], params=("a",))),
    ("assignment expression in the index of the target of an augmented assignment", _fn([
        ("subwalrus", "x", "H(1)", "H(2)"),
        ("subwalrus", "x", "H(1)", "3", "aug"),
        ("subwalrus", "y", "H(1)", "x", "aug"),
        ("return", "x")])),
    ("assignment expression in the index of a target", _fn([
        ("subwalrus", "x", "H(1)", "H(2)"),
        ("for", ("name", "i"), "T(3, 'list', 2)", [("subwalrus", "x", "H(4, i)", "i")], []),
        ("return", "x")])),
    ("tuple, starred, nested and chained targets; import", _fn([
        ("assign", [("tuple", [("name", "x"), ("name", "y")])], "T(1, 'tuple', 2)"),
        ("assign", [("tuple", [("name", "y"), ("star", "x")])], "T(2, 'list', 3)"),
        ("assign", [("tuple", [("name", "y"), ("tuple", [("name", "x"), ("name", "z")])])], "(H(3), T(4, 'tuple', 2))"),
        ("assign", [("name", "x"), ("name", "z")], "H(5)"),
        ("import", "math", "x"),
        ("return", "y")])),
]


def directed(chk):
    stats = {"programs": 0, "selectors": 0, "events": 0}
    for label, fn in DIRECTED:
        src = pylite.render(fn)
        twin = pylite.render(fn, twin=True)
        for script in ([True] * 12, [False] * 12, [True, False] * 6):
            args = [4 for _ in fn["params"]]
            names = pylite.bound_names(fn)
            forced = [("x", [])] + ([("x", [n for n in names if n != "x"][:2])] if len(names) > 1 else [])
            stats["programs"] += 1
            chk.dist("directed:" + label.split(":")[0][:40])
            run_program(chk, fn, src, twin, args, script, None, stats, forced=forced)
    chk.cov["oracle"]["twin_directed"] = stats


ESRC = '''
def f(n, items, flag):
    n = float(n)
    k = flag > 0
    k = int(k)
    items = list(items)
    z = 0
    z = False
    z = 0.0
    return (n, k, items, z)
'''


def equal_but_different(chk, rng):
    """a variable rebound to a value that is `==` to the one it had — another type, another object: the event
    carries the value that WAS bound (compared by type, repr and identity, not by equality)"""
    import ptera
    n = 12 if chk.tier == "quick" else 200
    for i in range(n):
        mod = pyprog.make_module(ESRC, "verif_c02_eq")
        arg_n, arg_items, arg_flag = rng.randrange(0, 5), [rng.randrange(3) for _ in range(rng.randrange(0, 3))], rng.randrange(0, 3)
        focus = rng.choice(["n", "k", "items", "z"])
        ctx = rng.choice([[], ["n"], ["z"]]) if focus not in ("n", "z") else []
        sel = "f(%s) > %s" % (", ".join(ctx), focus) if ctx else "f > %s" % focus
        with ptera.probing(sel, env=mod.__dict__) as pr:
            evs = pr.accum()
            ret = mod.f(arg_n, arg_items, arg_flag)
        # the values a twin would log for the focus, in order
        want = {"n": [arg_n, float(arg_n)], "k": [arg_flag > 0, int(arg_flag > 0)],
                "items": [arg_items, ret[2]], "z": [0, False, 0.0]}[focus]
        got = [e[focus] for e in evs]
        same = len(got) == len(want) and all(type(g) is type(w) and repr(g) == repr(w) for g, w in zip(got, want))
        if focus == "items" and same:
            same = got[0] is arg_items and got[1] is ret[2]
        chk.count(("equal-but-different", sel, arg_n, tuple(arg_items), arg_flag), nontrivial=True)
        chk.dist("equal-but-different values")
        if not same:
            chk.violation("oracle", "%s: the bindings of %s carry %r, the values bound were %r (compared by type, repr "
                          "and identity)" % (sel, focus, got, want),
                          {"source": ESRC, "selector": sel, "args": [arg_n, arg_items, arg_flag]})
        pyprog.drop_module(mod)


ISRC = """
%(globs)s

def f1(n):
    k = n + 1
    import json
    return (json, k)

def f2(n):
    k = n + 1
    import os.path
    return (os.path.basename("a/b"), k)

def f3(n):
    k = n + 1
    import xml.etree.ElementTree
    return (xml.etree.ElementTree.Element("t").tag, k)

def f4(n):
    k = n + 1
    import email.mime.text, xml.etree.ElementTree as ET
    m = email
    return (m, ET, k)

def f5(n):
    k = n + 1
    from xml.etree import ElementTree as xml
    return (xml, k)
"""


def dotted_imports(chk, rng):
    """`import a.b.c` binds `a` — once, by the import, with the module `a` — whether or not the function's module
    has a global of that name; `import a.b.c as z` binds z to the last component"""
    import importlib
    import ptera
    cases = [("f1", "json", "json"), ("f2", "os", "os"), ("f3", "xml", "xml"), ("f4", "email", "email"),
             ("f4", "ET", "xml.etree.ElementTree"), ("f4", "m", "email"), ("f5", "xml", "xml.etree.ElementTree")]
    for with_globals in (True, False):
        globs = "import json, os, xml, email\nET = 0" if with_globals else ""
        mod = pyprog.make_module(ISRC % {"globs": globs}, "verif_c02_imp")
        for fname, focus, modname in cases:
            for ctx in ([], ["k"]):
                sel = "%s(%s) > %s" % (fname, ", ".join(ctx), focus) if ctx else "%s > %s" % (fname, focus)
                arg = rng.randrange(0, 9)
                with ptera.probing(sel, env=mod.__dict__) as pr:
                    evs = pr.accum()
                    getattr(mod, fname)(arg)
                want = {focus: importlib.import_module(modname)}
                if ctx:
                    want["k"] = arg + 1
                ok = len(evs) == 1 and set(evs[0]) == set(want) and all(evs[0][q] is want[q] or evs[0][q] == want[q] for q in want) \
                    and evs[0][focus] is want[focus]
                chk.count(("dotted-import", with_globals, sel), nontrivial=True)
                chk.dist("dotted import, module global of the same name" if with_globals else "dotted import")
                if not ok:
                    chk.violation("oracle", "%s: the import binds %s once (to module %s); the stream is %s" % (
                        sel, focus, modname, [sorted((q, getattr(v, "__name__", v)) for q, v in e.items()) for e in evs][:4]),
                        {"source": ISRC % {"globs": globs}, "selector": sel, "args": [arg]})
        pyprog.drop_module(mod)


OSRC = """
def f(n):
    k = n * 2
    x = k + 1
    for i in range(2):
        x += i
    return x

def g(n):
    t = n + 1
    return t
"""


def overlapping_probes(chk, rng):
    """probes whose active periods overlap without being nested (activate / deactivate in any order): each one's
    stream is the binding history of its focus over exactly the calls made while it was active"""
    import ptera
    sels = ["f(k) > x", "g > t", "f > k", "f(x) > i", "g(n) > t"]

    def history(sel, n):
        k = n * 2
        if sel == "f(k) > x":
            return [{"k": k, "x": k + 1}, {"k": k, "x": k + 1}, {"k": k, "x": k + 2}]
        if sel == "g > t":
            return [{"t": n + 1}]
        if sel == "f > k":
            return [{"k": k}]
        if sel == "f(x) > i":
            return [{"x": k + 1, "i": 0}, {"x": k + 1, "i": 1}]
        return [{"n": n, "t": n + 1}]

    for _ in range(12 if chk.tier == "quick" else 300):
        mod = pyprog.make_module(OSRC, "verif_c02_ov")
        chosen = rng.sample(sels, rng.randrange(2, 4))
        probes = {s_: ptera.probing(s_, env=mod.__dict__) for s_ in chosen}
        got = {s_: probes[s_].accum() for s_ in chosen}
        want = {s_: [] for s_ in chosen}
        pending, active, ops = list(chosen), [], []
        rng.shuffle(pending)
        try:
            while pending or active:
                r = rng.random()
                if pending and (r < 0.35 or not active):
                    s_ = pending.pop()
                    probes[s_].activate()
                    active.append(s_)
                    ops.append("activate " + s_)
                elif active and r < 0.6:
                    s_ = active.pop(rng.randrange(len(active)))       # any of them: not the last one entered
                    probes[s_].deactivate()
                    ops.append("deactivate " + s_)
                else:
                    n = rng.randrange(0, 6)
                    mod.f(n), mod.g(n)
                    ops.append("f(%d); g(%d)" % (n, n))
                    for s_ in active:
                        want[s_] += history(s_, n)
            mod.f(1), mod.g(1)
        finally:
            for s_ in active:
                probes[s_].deactivate()
        nested = all(ops.index("deactivate " + a) > ops.index("deactivate " + b) for a in chosen for b in chosen
                     if ops.index("activate " + a) < ops.index("activate " + b) < ops.index("deactivate " + a))
        chk.count(("overlapping", tuple(ops)), nontrivial=not nested)
        chk.dist("probes nested" if nested else "probes overlapping, not nested")
        for s_ in chosen:
            if got[s_] != want[s_]:
                chk.violation("oracle", "%s, active over part of the history %s: its stream is %s, the bindings of its "
                              "focus while it was active are %s" % (s_, ops, got[s_][:8], want[s_][:8]),
                              {"source": OSRC, "ops": ops, "selector": s_})
                break
        pyprog.drop_module(mod)


def replay(chk, path):
    data = json.load(open(path))
    for v in data.get("violations", []):
        print("replay:", v["what"][:300]); print(v["replay"].get("source", "")[:800])
    return 1 if data.get("violations") else 0
