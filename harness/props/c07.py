"""C07 — total probes emit one complete record per outermost call.

proof leg      Props/C07.lean
correspondence model M3 vs BaseOverlay(Total(selector, close)) on generated call trees
oracle         records recomputed from the call tree by the independent reference (each value once);
               a difference that is exactly "once per embedding" is the recorded finding F17
"""
import json

import core
import treegen
import treecorr
import treeref
from props import c03


def gen_handlers(rng, fam):
    hs = []
    for _ in range(rng.choice([1, 1, 2])):
        forced = rng.random() < 0.25
        sel = treegen.gen_level(rng, fam, rng.randrange(0, 3), forced, conds=False, tags=rng.random() < 0.2)
        hs.append({"kind": "total", "selector": sel, "trigger": False})
    return hs


def oracle(chk, fam, infos, hs, hj, roots, trees, evs, err, stats):
    for hi, (h, j) in enumerate(zip(hs, hj)):
        sel = j["sel"]
        keys = treeref.all_capture_keys(sel)
        novalue = treeref.supported(dict(sel, captures=sel["captures"] + [dict(sel["captures"][0], focus=True)] if sel["captures"] else sel["captures"])) if False else True
        if treeref.focus_path(sel) is not None or len(keys) != len(set(keys)) or not keys:
            continue
        if any(k.startswith("/") for k in keys):
            continue
        got = [{k: [v["v"] for v in c["values"]] for k, c in e["args"].items()} for e in evs
               if e["h"] == hi and e["ev"] == "close"]
        once = treeref.total_records(sel, trees, infos, per_embedding=False)
        stats["oracle_checked"] += 1
        if got == once:
            continue
        per = treeref.total_records(sel, trees, infos, per_embedding=True)
        if got == per and chk.is_known("F17"):
            chk.known_finding("F17", "total selector %r records a value once per embedding of the path "
                              "instead of once (e.g. %s)" % (h["selector"], json.dumps(got[:1])[:120]))
            stats["known_F17"] = stats.get("known_F17", 0) + 1
            continue
        chk.violation("oracle", "total selector %r: records differ from the values taken under each "
                      "outermost call" % h["selector"],
                      {"family_src": fam.src, "handlers": [h], "roots": roots, "got": got[:8], "reference": once[:8]})


WITNESS_SRC = """
def b():
    bx = 7
    return bx

def a(n):
    if n > 0:
        return a(n - 1)
    return b()

def top(n):
    t = 1
    return a(n)
"""


def witness(chk):
    """F17 replayed on the implementation: `a` entered three times between top and b"""
    import ptera
    import pyprog
    mod = pyprog.make_module(WITNESS_SRC, "verif_c07_witness")
    with ptera.probing("top(t, a(b(bx)))", env=mod.__dict__, raw=True).values() as recs:
        mod.top(2)
    got = [{k: list(c.values) for k, c in r.items()} for r in recs]
    chk.count(("witness", "top(t, a(b(bx)))"))
    chk.cov["oracle"]["F17_witness"] = got
    if got == [{"t": [1], "bx": [7]}]:
        return   # the defect is gone (the model/implementation correspondence will say so too)
    if got == [{"t": [1], "bx": [7, 7, 7]}] and chk.is_known("F17"):
        chk.known_finding("F17", "probing('top(t, a(b(bx)))') with a re-entered 3x records bx == [7, 7, 7] "
                          "for a value taken once")
    else:
        chk.violation("oracle", "total selector top(t, a(b(bx))): record %r" % got,
                      {"family_src": WITNESS_SRC, "handlers": [{"selector": "top(t, a(b(bx)))"}], "roots": ["top(2)"],
                       "got": got, "reference": [{"t": [1], "bx": [7]}]})
    pyprog.drop_module(mod)


LEAVES_SRC = """
def step(i, fail):
    v = i * 10
    if fail:
        raise KeyError(i)
    r = v + 1
    return r

def batch(n, bad):
    done = 0
    for i in range(n):
        try:
            step(i, i in bad)
        except KeyError:
            pass
        else:
            done = done + 1
    return done
"""


def incomplete_leaves(chk, rng):
    """a focused selector in total mode: one record per call of the focus's function in which every captured
    variable was bound — a call that raises before binding one of them gives nothing and takes nothing away from
    the calls before and after it"""
    import ptera
    import pyprog
    sel = "batch(n) > step(!v, r)"
    for _ in range(20 if chk.tier == "quick" else 400):
        mod = pyprog.make_module(LEAVES_SRC, "verif_c07_leaves")
        n = rng.randrange(2, 6)
        bad = tuple(sorted(rng.sample(range(n), rng.randrange(0, n))))
        got = []
        with ptera.probing(sel, env=mod.__dict__, raw=True, probe_type="total") as prb:
            prb.subscribe(lambda d: got.append({k: list(c.values) for k, c in d.items()}))
            mod.batch(n, bad)
        want = [{"v": [i * 10], "r": [i * 10 + 1], "n": [n]} for i in range(n) if i not in bad]
        canon = lambda recs: sorted(sorted(r.items()) for r in recs)
        chk.count(("incomplete-leaves", n, bad), nontrivial=bool(bad) and len(bad) < n)
        chk.dist("total, focused: %s" % ("no incomplete call" if not bad else "an incomplete call before a complete one"
                                         if any(b < i for b in bad for i in range(n) if i not in bad) else "incomplete calls last"))
        if canon(got) != canon(want):
            chk.violation("oracle", "total selector %s, batch(%d) with the calls %s of step raising before r is bound: records "
                          "%r, one per complete call would be %r" % (sel, n, list(bad), got[:6], want[:6]),
                          {"family_src": LEAVES_SRC, "handlers": [{"selector": sel}], "roots": ["batch(%d, %r)" % (n, bad)],
                           "got": got[:8], "reference": want[:8]})
        pyprog.drop_module(mod)


def run(chk):
    chk.cov["rule"] = (
        "families of 3 mutually calling tooled functions (bind / call / raise slots), random scripts with "
        "repeated and recursive outermost calls and raising calls, 1-2 Total handlers with focus-free "
        "(75%) or forced-total focused (25%) selectors of depth <= 3; non-trivial = at least one record "
        "and more than one activation")
    nf, nc = (4, 150) if chk.tier == "quick" else (24, 500)
    c03.run_cases(chk, nf, nc, gen_handlers, oracle)
    witness(chk)
    incomplete_leaves(chk, chk.rng)
    chk.assumptions += [
        "forced-total focused selectors are compared with the model only (no independent reference)",
    ]


replay = c03.replay
