"""C05 — probes deliver exactly-once while active and leave no trace once deactivated.

proof leg      Props/C05.lean (invariant of the life-cycle model M5 over every operation list)
correspondence model M5 vs the implementation after EVERY step of generated histories (outputs,
               counters, installed-code identity, context handlers)
oracle         exactly-once delivery to active probes / nothing to inactive ones computed from the
               history itself; quiescence leaves original code, zero counters, empty context,
               untouched module globals
"""
import json

import core
import lifecycle as L


def expected_event(sel, f, x):
    """the event a call f(x) delivers for selector text `sel` (None if the selector names another function)"""
    vals = [{"x": x, "a": x + 1, "b": (x + 1) * 2, "c": (x + 1) * 2 - x},
            {"x": x, "a": x * 3, "b": x * 3 + 7}][f]
    if not sel.startswith("f%d" % f):
        return None
    import re
    names = re.findall(r"[!]?[a-z#]+", sel.split("f%d" % f, 1)[1])
    focus = None
    caps = []
    if ">" in sel:
        focus = sel.split(">")[-1].strip()
        caps = [n for n in re.findall(r"[a-z]+", sel.split(">")[0].split("(", 1)[1])] if "(" in sel.split(">")[0] else []
    else:
        inner = sel.split("(", 1)[1].rstrip(")")
        for part in [p.strip() for p in inner.split(",")]:
            if part.startswith("!"):
                focus = part[1:]
            else:
                caps.append(part)
    order = ["x", "a", "b", "c"]
    ev = {focus: vals[focus]}
    for c in caps:
        if order.index(c) <= order.index(focus):
            ev[c] = vals[c]
    return focus, ev


def gen_history(rng, nprobes, length):
    ops = []
    active = [False] * nprobes
    activated = [False] * nprobes
    for _ in range(length):
        r = rng.random()
        p = rng.randrange(nprobes)
        if r < 0.3:
            if not active[p] and (not activated[p] or rng.random() < 0.3):
                ops.append({"op": "activate", "p": p})
            elif active[p] and rng.random() < 0.2:
                ops.append({"op": "activate", "p": p})      # second attempt while active: refused
            else:
                continue
        elif r < 0.5:
            if active[p]:
                ops.append({"op": "deactivate", "p": p, "exc": rng.random() < 0.3})
                active[p] = False
            else:
                continue
        elif r < 0.6:
            ops.append({"op": "attach", "p": p})
        else:
            ops.append({"op": "call", "f": rng.randrange(2), "x": rng.randrange(0, 5)})
        if ops[-1]["op"] == "activate" and not activated[p]:
            activated[p] = True
            active[p] = "maybe"        # refused selectors never become active: resolved while running
    return ops


def run_history(chk, uni, drv, rng, length, stats):
    nprobes = rng.randrange(1, 4)
    probe_sels = []
    for _ in range(nprobes):
        if rng.random() < 0.12:
            # one refused selector, alone or among selectors that verify (before or after them)
            sels = rng.sample(L.SELECTORS, rng.choice([0, 0, 1, 2]))
            sels.insert(rng.randrange(len(sels) + 1), rng.choice(L.REFUSED))
            probe_sels.append(sels)
        else:
            k = rng.choice([1, 1, 2])
            probe_sels.append(rng.sample(L.SELECTORS, k))
    run = L.Run(uni, probe_sels)
    specs = [uni.spec(s) for s in probe_sels]
    for p in range(nprobes):
        run.attach(p)
    ops = [{"op": "attach", "p": p, "stage": 0} for p in range(nprobes)]
    hist = []
    # generate ops adaptively so that only active probes are deactivated
    active = [False] * nprobes
    activated = [False] * nprobes
    glb_before = set(uni.mod.__dict__)
    impl_steps = []
    try:
        for _ in range(length):
            r = rng.random()
            p = rng.randrange(nprobes)
            if r < 0.3:
                op = {"op": "activate", "p": p}
            elif r < 0.5:
                if not active[p]:
                    # now and then: deactivate a probe a second time (refused, nothing may change)
                    if not (activated[p] and rng.random() < 0.3):
                        continue
                    op = {"op": "deactivate", "p": p, "exc": False, "again": True}
                else:
                    op = {"op": "deactivate", "p": p, "exc": rng.random() < 0.3}
            elif r < 0.58:
                op = {"op": "attach", "p": p, "stage": run.nstages[p]}
            elif r < 0.61:
                # not an operation of the model: a suspended instrumented generator is advanced one step
                op = {"op": "resume", "how": rng.choice(["next", "next", "close", "drop", "short-start", "short-end"])}
                out = run.step(op)
                chk.dist("resume:" + op["how"])
                if out != {"context_same": True}:
                    chk.violation("oracle", "advancing / closing / dropping a suspended instrumented generator changed the "
                                  "handler context of the code that did it", {"probes": probe_sels, "history": hist + [op]})
                continue
            elif r < 0.64:
                # not an operation of the model: a call of OTHER functions left by an exception of a handler
                op = {"op": "storm", "x": rng.randrange(0, 5)}
                out = run.step(op)
                chk.dist("storm")
                if out != {"raised": True, "seen": 1, "context_same": True}:
                    chk.violation("oracle", "a call left by an exception of a total handler (with a nested selector "
                                  "active on the same functions): %r — expected the exception, one event, and the "
                                  "handler context exactly as before" % (out,),
                                  {"probes": probe_sels, "history": hist + [op]})
                continue
            else:
                op = {"op": "call", "f": rng.randrange(2), "x": rng.randrange(0, 5)}
            out = run.step(op)
            obs = run.observe()
            if op["op"] == "activate" and out == "ok":
                active[p] = True
                activated[p] = True
            if op["op"] == "deactivate":
                active[p] = False
                if op.get("again"):
                    if out == "ok":
                        chk.violation("oracle", "deactivating probe %d a second time was accepted" % p,
                                      {"probes": probe_sels, "history": hist + [op]})
                    out = "not-active"
            hist.append(op)
            impl_steps.append((op, out, obs, list(active)))
            # ---- oracle, from the history alone
            if op["op"] == "activate":
                want = "refused-selector" if specs[p]["refused"] and not activated[p] else (
                    "ok" if out == "ok" else "refused-twice")
                if isinstance(out, str) and out.startswith("exception"):
                    chk.violation("oracle", "activation raised %s" % out, {"probes": probe_sels, "history": hist})
            if op["op"] == "call":
                if not out["ret_ok"]:
                    chk.violation("oracle", "call returned a wrong value under probes", {"probes": probe_sels, "history": hist})
                for q in range(nprobes):
                    got = out["per_probe"].get(q, {})
                    want_evs = []
                    if active[q]:
                        cands = []
                        for s in probe_sels[q]:
                            e = expected_event(s, op["f"], op["x"])
                            if e:
                                cands.append(e)
                        order = ["x", "a", "b", "c"]
                        # events come in binding order of the focus; same focus: selector order
                        cands.sort(key=lambda fe: order.index(fe[0]))
                        want_evs = [e for _, e in cands]
                    for st, evs in got.items():
                        if sorted(json.dumps(e, sort_keys=True) for e in evs) != sorted(json.dumps(e, sort_keys=True) for e in want_evs):
                            chk.violation("oracle", "probe %d (%s, active=%s) stage %d received %r for call f%d(%d), "
                                          "expected exactly %r" % (q, probe_sels[q], active[q], st, evs, op["f"],
                                                                   op["x"], want_evs),
                                          {"probes": probe_sels, "history": hist})
            if not any(active):
                for fi, fs in enumerate(obs["fns"]):
                    if not fs["orig"] or fs["count"] != 0 or fs["caps"]:
                        chk.violation("oracle", "no probe is active but f%d: original code=%s, instrument_count=%s, "
                                      "captures=%s" % (fi, fs["orig"], fs["count"], fs["caps"]),
                                      {"probes": probe_sels, "history": hist})
                if obs["current"]:
                    chk.violation("oracle", "no probe is active but handlers of probes %s are installed in the "
                                  "context" % obs["current"], {"probes": probe_sels, "history": hist})
                import ptera
                extra = set(uni.mod.__dict__) - glb_before - {k for k in uni.mod.__dict__ if str(k).startswith(("__ptera", "_ptera__"))}
                if extra or any(ptera.is_tooled(f) for f in uni.funs):
                    chk.violation("oracle", "quiescent but module globals gained %s / is_tooled=%s" % (
                        sorted(map(str, extra)), [ptera.is_tooled(f) for f in uni.funs]),
                        {"probes": probe_sels, "history": hist})
    finally:
        run.cleanup()
    # ---- model
    req = {"op": "lifecycle", "fns": 2, "body": L.BODY, "varOf": uni.var_of, "probes": specs,
           "ops": ops + hist}
    trace = drv.ask(req)[len(ops):]
    stats["histories"] += 1
    stats["steps"] += len(hist)
    nontrivial = sum(1 for o in hist if o["op"] == "activate") >= 2 and any(o["op"] == "call" for o in hist)
    chk.count(json.dumps([probe_sels, hist], sort_keys=True), nontrivial=nontrivial)
    for (op, out, obs, act), m in zip(impl_steps, trace):
        chk.dist(op["op"])
        ms = m["state"]
        ok = True
        if op["op"] == "call":
            mevs = {}
            for (p, v, stages) in m["out"]["events"]:
                for st in stages:
                    mevs.setdefault((p, st), []).append(L.VARS[v])
            ievs = {}
            for p, stages in out["per_probe"].items():
                for st, evs in stages.items():
                    if evs:
                        foc = []
                        for e in evs:
                            # the focus is the latest-bound variable of the event
                            foc.append(max(e, key=lambda k: ["x", "a", "b", "c"].index(k)))
                        ievs[(p, st)] = foc
            ok = ok and ({k: sorted(v) for k, v in mevs.items()} == {k: sorted(v) for k, v in ievs.items()})
        else:
            ok = ok and (m["out"] == out)
        for fs_m, fs_i in zip(ms["fns"], obs["fns"]):
            ok = ok and fs_m["count"] == fs_i["count"] and sorted(fs_m["caps"]) == fs_i["caps"]
            ok = ok and ((fs_m["installed"] is None) == fs_i["orig"])
        ok = ok and ms["current"] == obs["current"] and ms["completed"] == obs["completed"]
        if not ok:
            stats["disagreements"] += 1
            chk.violation("correspondence", "life-cycle model and implementation differ after %s" % json.dumps(op),
                          {"probes": probe_sels, "history": hist, "op": op, "impl_out": out if not isinstance(out, dict) else out["per_probe"],
                           "impl_state": obs, "model": m})
            break
    if stats["histories"] % 50 == 1:
        chk.sample({"probes": probe_sels, "history": hist})


def run(chk):
    drv = chk.open_driver()
    uni = L.Universe()
    chk.cov["rule"] = (
        "histories of 8-24 operations over 1-3 probes (1-2 selectors each from 10 overlapping selectors on 2 "
        "functions, 12% with a selector that verification refuses): activate (incl. repeated attempts), "
        "deactivate in ANY order (30% as if the with-block was left by an exception; now and then a second time: "
        "refused, nothing changes), attach a stage, call, and (outside the model) a call of other functions that a "
        "raising handler leaves by an exception while a nested selector is active; "
        "the implementation is observed after every step. non-trivial = at least two activations and a call")
    stats = {"histories": 0, "steps": 0, "disagreements": 0}
    n = 250 if chk.tier == "quick" else 5000
    for _ in range(n):
        run_history(chk, uni, drv, chk.rng, chk.rng.randrange(8, 25), stats)
    chk.cov["correspondence"]["histories"] = stats
    uni.drop()


def replay(chk, path):
    data = json.load(open(path))
    for v in data.get("violations", []) + data.get("model_disagreements", []):
        print("replay:", v["what"][:300]); print("  ", json.dumps(v["replay"])[:600])
    return 1 if data.get("violations") else 0
