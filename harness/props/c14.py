"""C14 — absolute references keep resolving to the same function across probing.

proof leg      Props/C14.lean (registry invariant over every history; resolve(refstring f) = f)
correspondence registry model M7 vs the implementation: after every step of generated histories the
               reference of EVERY function of a generated module is resolved and compared
oracle         select(refstring(fn)).element.name is the function; probing by reference delivers the
               same events as probing by name
"""
import importlib
import json
import os
import shutil
import sys
import tempfile

import core

SRC = '''
import functools

def m(x):
    v = x + 1
    return v

def other(x):
    v = x + 2
    w = v * 2
    return w

class K:
    def m(self, x):
        v = x * 2
        return v

    def other(self, x):
        v = x * 3
        return v

    class Inner:
        def deep(self, x):
            v = x - 1
            return v

        def m(self, x):
            v = x - 2
            return v

def outer():
    u = 3
    v = 7
    def nested(x):
        v = x * 10
        return v
    return nested

def deco(fn):
    @functools.wraps(fn)
    def wrapper(*a, **k):
        return fn(*a, **k)
    return wrapper

@deco
def decorated(x):
    v = x + 100
    return v

@deco
@deco
def decorated2(x):
    v = x + 200
    return v

def helper(x):
    v = x + 5
    return v

def driver(x):
    return helper(x)

nested = outer()
'''


class Universe:
    def __init__(self, tmp, idx):
        self.name = "verif_c14_%d_%d" % (os.getpid(), idx)
        with open(os.path.join(tmp, self.name + ".py"), "w") as f:
            # every module of a run gets its own line numbers: code objects compare by VALUE without the file
            # name, and codefind keys its function cache by code object — two modules with identical text would
            # share cache entries (seen in the thorough tier, when codefind's gc scans get slow and it switches to
            # that cache: references of one module resolved to the twin module's functions)
            f.write("\n" * (idx if idx < 1000 else 100 + (idx - 1000)) + SRC)
        self.mod = importlib.import_module(self.name)
        M = self.mod
        k, inner = M.K(), M.K.Inner()
        # (label, function object whose reference is taken, underlying function, caller, expected v)
        self.fns = [
            ("m", M.m, M.m, lambda x: M.m(x), lambda x: x + 1),
            ("other", M.other, M.other, lambda x: M.other(x), lambda x: x + 2),
            ("K.m", M.K.m, M.K.m, lambda x: k.m(x), lambda x: x * 2),
            ("K.other", M.K.other, M.K.other, lambda x: k.other(x), lambda x: x * 3),
            ("K.Inner.deep", M.K.Inner.deep, M.K.Inner.deep, lambda x: inner.deep(x), lambda x: x - 1),
            ("K.Inner.m", M.K.Inner.m, M.K.Inner.m, lambda x: inner.m(x), lambda x: x - 2),
            ("nested", M.nested, M.nested, lambda x: M.nested(x), lambda x: x * 10),
            ("decorated", M.decorated, M.decorated.__wrapped__, lambda x: M.decorated(x), lambda x: x + 100),
            ("decorated2", M.decorated2, M.decorated2.__wrapped__.__wrapped__, lambda x: M.decorated2(x), lambda x: x + 200),
            # the function that DEFINES another one (whose live instance keeps its own reference)
            ("outer", M.outer, M.outer, lambda x: (M.outer(), None)[1], lambda x: 7),
            ("helper", M.helper, M.helper, lambda x: M.helper(x), lambda x: x + 5),
            # a function that is only an element of a call path: instrumented with NO captured variable
            ("driver", M.driver, M.driver, lambda x: M.driver(x), lambda x: x + 5),
        ]
        self.by_name = {"m": "m > v", "other": "other > v", "K.m": "K.m > v", "K.other": "K.other > v",
                        "K.Inner.deep": "K.Inner.deep > v", "K.Inner.m": "K.Inner.m > v",
                        "nested": "nested > v", "decorated": "decorated > v", "decorated2": "decorated2 > v", "outer": "outer > v",
                        "helper": "helper > v", "driver": "driver > helper > v"}

    def drop(self):
        sys.modules.pop(self.name, None)


def resolve_all(uni):
    """for every function: what its reference resolves to right now"""
    from ptera import refstring
    from ptera.selector import select
    out = []
    for i, (label, fn, target, _, _) in enumerate(uni.fns):
        try:
            ref = refstring(fn)
            got = select(ref + " > v").element.name
            if got is target:
                out.append({"ok": i})
            else:
                j = [k for k, f in enumerate(uni.fns) if f[2] is got]
                if j:
                    out.append({"ok": j[0]})
                else:
                    # diagnosis: what the registry offers for this path
                    try:
                        import codefind
                        _, module, *hier = ref.split("/")
                        co = codefind.find_code(*hier, module=module or "__main__")
                        cands = [(getattr(f, "__module__", "?"), bool(getattr(f, "__ptera_discard__", False)), f is target,
                                  getattr(f, "__globals__", None) is target.__globals__)
                                 for f in codefind.get_functions(co)]
                        diag = " [registry code is the target's current code: %s; functions on it (module, discard, is target, "\
                               "same globals): %r; module in sys.modules: %s]" % (co is target.__code__, cands, module in sys.modules)
                    except Exception as e2:
                        diag = " [diagnosis failed: %s]" % e2
                    out.append("wrong:%r%s" % (got, diag))
        except Exception as e:
            msg = str(e)
            if "ambiguous" in msg:
                out.append("ambiguous")
            elif "cannot be resolved" in msg or "Cannot find" in msg:
                out.append("not-found")
            else:
                out.append("%s: %s" % (type(e).__name__, msg[:80]))
    return out


def run_history(chk, uni, drv, rng, stats, script=None):
    import ptera
    from ptera import refstring
    n = len(uni.fns)
    probes = []          # (probe, fi, accumulated list, by)
    hist = []
    model_ops = []
    elem_ids = {}
    variants_seen = {}

    def stack_state(fi):
        st = getattr(uni.fns[fi][2], "__ptera_stack__", None)
        if st is None or st.instrument_count == 0:
            return None, (0 if st is None else len(st.tset.transforms))
        caps = sorted(elem_ids.setdefault(id(el), len(elem_ids)) for el, c in st.captures.items() if c > 0)
        return caps, len(st.tset.transforms)

    try:
        for step_i in range(rng.randrange(4, 12) if script is None else len(script)):
            forced = None if script is None else script[step_i]
            r = rng.random() if forced is None else {"activate": 0.0, "deactivate": 0.5, "call": 0.7, "missing": 0.85, "resolve": 0.9}[forced[0]]
            before = {fi: stack_state(fi) for fi in range(n)}
            if r < 0.35:
                fi = rng.randrange(n)
                by = rng.choice(["name", "ref"])
                label, fn, target, _, _ = uni.fns[fi]
                # a second captured variable: different probes on one function need different variants
                extra = rng.choice(["", "", "x"]) if label != "outer" else rng.choice(["", "u"])
                if forced is not None:
                    fi = [f[0] for f in uni.fns].index(forced[1])
                    by, extra = forced[2], forced[3]
                    label, fn, target, _, _ = uni.fns[fi]
                if by == "name":
                    sel = uni.by_name[label] if not extra else uni.by_name[label].replace(" > v", "(%s) > v" % extra)
                elif label == "driver":
                    ref = refstring(fn) + " > " + refstring(uni.mod.helper)
                    sel = ref + " > v" if not extra else ref + "(x) > v"
                else:
                    ref = refstring(fn)
                    sel = ref + " > v" if not extra else ref + "(%s) > v" % extra
                op = {"op": "activate", "f": fi, "by": by, "sel": sel}
                try:
                    p = ptera.Probe(sel, env=uni.mod.__dict__)
                    acc = p.accum()
                    p.__enter__()
                    probes.append([p, fi, acc, by, extra])
                except Exception as e:
                    chk.violation("oracle", "activating %r raised %s: %s" % (sel, type(e).__name__, str(e)[:120]),
                                  {"history": hist + [op]})
                    hist.append(op)
                    break
            elif r < 0.55 and probes:
                k = rng.randrange(len(probes)) if forced is None else forced[1] % len(probes)          # any order
                p, fi, acc, by, extra = probes.pop(k)
                p.__exit__(None, None, None)
                op = {"op": "deactivate", "f": fi}
            elif r < 0.8:
                fi = rng.randrange(n) if forced is None else [f[0] for f in uni.fns].index(forced[1])
                x = rng.randrange(0, 9)
                ret = uni.fns[fi][3](x)
                op = {"op": "call", "f": fi, "x": x}
                want_v = uni.fns[fi][4](x)
                for p, pfi, acc, by, extra in probes:
                    if pfi == fi:
                        want = {"v": want_v}
                        if extra:
                            want[extra] = x if extra == "x" else 3
                        if not acc or acc[-1] != want:
                            chk.violation("oracle", "probe by %s on %s did not deliver %r for this call (stream: %r)" % (
                                by, uni.fns[fi][0], want, list(acc)[-3:]), {"history": hist + [op]})
            elif r < 0.88:
                # a reference that does not exist is looked up (and refused): nothing else may change
                op = {"op": "missing"}
                from ptera.selector import select as _sel, CodeNotFoundError
                import gc
                try:
                    _sel("/%s/nosuch%d > v" % (uni.name, rng.randrange(3)))
                    chk.violation("oracle", "a reference to a function that does not exist was accepted",
                                  {"history": hist + [op]})
                except CodeNotFoundError:
                    pass
                except Exception as e:
                    chk.violation("oracle", "a reference to a function that does not exist was refused with %s: %s" % (
                        type(e).__name__, str(e)[:100]), {"history": hist + [op]})
                gc.collect()
            else:
                op = {"op": "resolve"}
            hist.append(op)
            # ---- model ops for what changed on the stacks
            for fi in range(n):
                caps, nvar = stack_state(fi)
                if (caps, nvar) != before[fi]:
                    model_ops.append({"op": "install", "f": fi, "caps": caps, "fresh": nvar > before[fi][1]})
            for fi in range(n):
                model_ops.append({"op": "resolve", "f": fi})
            # ---- oracle + correspondence: every reference resolves to its very function
            got = resolve_all(uni)
            for fi, g in enumerate(got):
                if g != {"ok": fi}:
                    chk.violation("oracle", "the reference of %s resolves to %s after %s" % (
                        uni.fns[fi][0], g if not isinstance(g, dict) else uni.fns[g["ok"]][0], json.dumps(op)),
                        {"history": hist})
            m = drv.ask({"op": "registry", "n": n, "ops": model_ops})
            mres = [x for x in m if x is not None][-n:]
            if mres != got:
                stats["disagreements"] += 1
                chk.violation("correspondence", "registry model and implementation resolve differently after %s" % json.dumps(op),
                              {"history": hist, "model": mres, "impl": got})
                break
    finally:
        for p, fi, acc, by, extra in probes:
            try:
                p.__exit__(None, None, None)
            except Exception:
                pass
    stats["histories"] += 1
    stats["steps"] += len(hist)
    chk.count(json.dumps(hist), nontrivial=sum(1 for h in hist if h["op"] == "activate") >= 1 and len(hist) >= 4)
    for h in hist:
        chk.dist(h["op"] + (":" + h["by"] if "by" in h else ""))
    if stats["histories"] % 40 == 1:
        chk.sample({"history": hist})


def witness_tooled(chk):
    """finding F25: the reference of a function object returned by the tooled decorator"""
    import ptera
    import pyprog
    mod = pyprog.make_module("from ptera import tooled\n\n@tooled\ndef tf(x):\n    v = x + 1\n    return v\n", "verif_c14_tooled")
    try:
        got = ptera.selector.select(ptera.refstring(mod.tf) + " > v").element.name
        same = got is mod.tf
    except Exception as e:
        same = "%s: %s" % (type(e).__name__, e)
    chk.count(("tooled-decorator",))
    if same is True:
        return
    if same is False and chk.is_known("F25"):
        chk.known_finding("F25", "the reference of a function decorated with @tooled resolves to the undecorated "
                          "original (%r), not to the tooled function object" % (same,))
    else:
        chk.violation("oracle", "refstring of a @tooled function does not resolve to it: %r" % (same,),
                      {"history": ["@tooled def tf", "select(refstring(tf))"]})
    pyprog.drop_module(mod)


def witness_inplace(chk):
    """functions tooled in place (they keep their identity): their references resolve to them before, during and
    after probes, by name and by reference"""
    import ptera
    import pyprog
    src = ("from ptera import tooled\n\n@tooled.inplace\ndef kept(x):\n    v = x + 1\n    return v\n\n"
           "class Box:\n    class Inner:\n        @tooled.inplace\n        def meth(self, x):\n            w = x * 2\n            return w\n\n"
           "def later(x):\n    u = x - 1\n    return u\n\ntooled.inplace(later)\n")
    mod = pyprog.make_module(src, "verif_c14_inplace")
    targets = [("kept", mod.kept, "v"), ("Box.Inner.meth", mod.Box.Inner.meth, "w"), ("later", mod.later, "u")]
    hist = []

    def resolve_all(when):
        for name, fn, var in targets:
            try:
                got = ptera.selector.select(ptera.refstring(fn) + " > " + var).element.name
                ok = got is fn
                what = "another object" if not ok else ""
            except Exception as e:
                ok, what = False, "%s: %s" % (type(e).__name__, str(e)[:100])
            chk.count(("inplace", name, when))
            if not ok:
                chk.violation("oracle", "the reference of %s (tooled in place) does not resolve to it %s: %s" % (name, when, what),
                              {"source": src, "history": hist + ["resolve " + name]})
    try:
        resolve_all("before any probe")
        for name, fn, var in targets:
            hist.append("probe %s by name" % name)
            with ptera.probing(fn, "x") if False else ptera.probing("%s > %s" % (name, var), env=mod.__dict__).values() as evs:
                resolve_all("while %s is probed" % name)
                (fn(3) if name != "Box.Inner.meth" else mod.Box.Inner().meth(3))
            if len(evs) != 1:
                chk.violation("oracle", "probing %s > %s delivered %d events for one call" % (name, var, len(evs)),
                              {"source": src, "history": hist})
            resolve_all("after the probe on %s" % name)
            hist.append("probe %s by reference" % name)
            with ptera.probing(ptera.refstring(fn) + " > " + var).values() as evs:
                (fn(4) if name != "Box.Inner.meth" else mod.Box.Inner().meth(4))
            if len(evs) != 1:
                chk.violation("oracle", "probing %s by reference delivered %d events for one call" % (name, len(evs)),
                              {"source": src, "history": hist})
    except Exception as e:
        chk.violation("oracle", "functions tooled in place: %s: %s" % (type(e).__name__, str(e)[:160]),
                      {"source": src, "history": hist})
    pyprog.drop_module(mod)


def run(chk):
    drv = chk.open_driver()
    tmp = tempfile.mkdtemp(prefix="verif_c14_")
    sys.path.insert(0, tmp)
    chk.cov["rule"] = (
        "a generated module on disk with a module-level function, a second one, methods of a class and of a "
        "nested class that SHARE NAMES with the module-level functions, a function defined inside a function "
        "(one live instance), the function that defines it, and functools.wraps-decorated functions (one and two levels); histories of 4-11 operations: activate "
        "a probe by name or by reference (optionally capturing a second variable), deactivate in any order, "
        "call, look a non-existent reference up, resolve; after EVERY step the reference of every function is resolved. non-trivial = at least "
        "one activation and four steps")
    stats = {"histories": 0, "steps": 0, "disagreements": 0}
    try:
        nuni = 3 if chk.tier == "quick" else 25
        per = 25 if chk.tier == "quick" else 120
        from codefind import code_registry
        for u in range(nuni):
            # codefind answers "which functions run this code" by a gc scan, or — when scans get slow in a large
            # process — from a cache that ptera has to keep up to date: every other module is run in that mode
            code_registry.always_use_cache = (u % 2 == 1)
            chk.dist("codefind cache mode" if u % 2 == 1 else "codefind scan mode")
            uni = Universe(tmp, u)
            for _ in range(per):
                run_history(chk, uni, drv, chk.rng, stats)
            uni.drop()
        # directed: every order of three probes among those on a function and on the function defined inside
        # it / called by it, each on a FRESH module (variants are compiled while neighbours are off their
        # original code; a variant compiled earlier would be reused)
        import itertools
        fam = [("nested", "", ), ("outer", ""), ("outer", "u"), ("helper", ""), ("driver", ""), ("driver", "x")]
        trios = list(itertools.permutations(fam, 3))
        if chk.tier == "quick":
            # the encloser's two variants with the inner function, the path-only function with its callee, + a sample
            core_t = [t for t in trios if {x[0] for x in t} in ({"nested", "outer"}, {"helper", "driver"})]
            trios = core_t + chk.rng.sample([t for t in trios if t not in core_t], 8)
        for k, trio in enumerate(trios):
            code_registry.always_use_cache = (k % 2 == 1)
            uni = Universe(tmp, 1000 + k)
            by = chk.rng.choice(["name", "ref"])
            sc = []
            for lab, ex in trio:
                sc += [("activate", lab, by, ex), ("call", lab)]
            sc += [("missing",), ("deactivate", 1), ("resolve",), ("deactivate", 0), ("call", trio[2][0]), ("deactivate", 0)]
            run_history(chk, uni, drv, chk.rng, stats, script=sc)
            chk.dist("directed")
            uni.drop()
        code_registry.always_use_cache = False
        witness_tooled(chk)
        witness_inplace(chk)
    finally:
        sys.path.remove(tmp)
        shutil.rmtree(tmp, ignore_errors=True)
    chk.cov["correspondence"]["histories"] = stats
    chk.assumptions += [
        "codefind (code registry, gc-based get_functions, the exec audit hook) is external: modelled (paths, current code per path, back-references) and validated by this correspondence",
        "two live closures of one `def` share a reference string: only one live instance per nested function is generated",
    ]


def replay(chk, path):
    data = json.load(open(path))
    for v in data.get("violations", []) + data.get("model_disagreements", []):
        print("replay:", v["what"][:300]); print("  ", json.dumps(v["replay"])[:600])
    return 1 if data.get("violations") else 0
