"""C17 — a probe's stream opens once, completes once at exit, and is silent outside.

proof leg      Props/C17.lean (single-activation guard, completion exactly once, stages see only
               events delivered while attached and active) over the life-cycle model M5
correspondence model M5 vs the implementation after every step (which stage received which event,
               completion order, refusals)
oracle         reducing and non-reducing stages (accum, count, sum, min, max, last) compared with
               reductions of exactly the events delivered during the active period
"""
import json

import core
import lifecycle as L

KINDS = ["accum", "count", "sum", "min", "max", "last"]


def run_history(chk, uni, drv, rng, stats):
    import ptera
    sel = rng.choice(["f0 > a", "f0(a) > b", "f1 > a", "f0 > c"])
    focus = sel.split(">")[-1].strip()
    fi = int(sel[1])
    probe = ptera.Probe(sel, env=uni.mod.__dict__)
    api = rng.random() < 0.5        # the explicit activate() / deactivate() of global probes, or the with protocol
    if rng.random() < 0.5:
        uni.gen = uni.mod.hgen(10 ** 6)     # a generator that takes its first step before the probe is activated
        next(uni.gen)
    spec = uni.spec([sel])
    stages = []      # dict(kind, out, delivered(expected), attached_at)
    hist = []
    active = False
    activated = False
    done = False
    model_ops = []

    derived = []       # probes derived from the root (a deactivation may be asked through any of them)

    def attach():
        kind = rng.choice(KINDS + (["raiser"] if rng.random() < 0.4 else []))
        out = []
        src = probe[focus]
        derived.append(src)
        if kind == "raiser":
            # a subscriber that raises when the stream completes (what `p["a"].min().print()` does on an empty
            # stream): the deactivation lets the error through, and is a deactivation all the same
            def completed(out=out):
                out.append("done")
                raise uni.mod.Oops("raised at completion")
            src.subscribe(on_next=out.append, on_completed=completed)
        else:
            obs = src if kind == "accum" else getattr(src, kind)()
            obs.subscribe(on_next=out.append, on_error=lambda e: out.append("ERR:" + type(e).__name__),
                          on_completed=lambda: out.append("done"))
        stages.append({"kind": kind, "out": out, "expected": [], "live": not done})
        model_ops.append({"op": "attach", "p": 0, "stage": len(stages) - 1})
        hist.append({"op": "attach", "kind": kind})

    for _ in range(rng.randrange(1, 3)):
        attach()
    # neighbours: the function may already be instrumented by a long-lived probe on another variable, and the
    # focus variable may have been probed (and released) before — the stream of THIS probe must not care
    neighbours = []
    if rng.random() < 0.5:
        other = rng.choice([s_ for s_ in ("f0 > x", "f0 > c", "f0 > b", "f1 > b", "f1 > x")
                            if s_[1] == sel[1] and s_.split(">")[-1].strip() != focus])
        bg = ptera.Probe(other, env=uni.mod.__dict__)
        bg.__enter__()
        neighbours.append(bg)
        hist.append({"op": "background probe", "sel": other})
        if rng.random() < 0.7:
            early = ptera.Probe(sel, env=uni.mod.__dict__)
            early.__enter__()
            uni.funs[fi](1)
            early.__exit__(None, None, None)
            hist.append({"op": "earlier probe on the same selector, released"})
            neighbours.append(("released", early))
    n = rng.randrange(5, 16)
    for _ in range(n):
        r = rng.random()
        if r < 0.2:
            # (re-)activation attempt
            hist.append({"op": "activate"})
            model_ops.append({"op": "activate", "p": 0})
            try:
                if api:
                    probe.activate()
                else:
                    probe.__enter__()
                ok = True
            except Exception as e:
                ok = False
                if "only be entered once" not in str(e):
                    chk.violation("oracle", "activation raised %s: %s" % (type(e).__name__, e), {"selector": sel, "history": hist})
            if ok and activated:
                chk.violation("oracle", "a second activation of the same probe was accepted",
                              {"selector": sel, "history": hist})
            if ok and not activated:
                active = True
            activated = True if ok or activated else activated
        elif r < 0.35 and active:
            exc = rng.random() < 0.4 and not api
            hist.append({"op": "deactivate", "exc": exc, "api": api})
            model_ops.append({"op": "deactivate", "p": 0})
            raisers = [st for st in stages if st["live"] and st["kind"] == "raiser"]
            hist[-1]["stages_raising_at_completion"] = len(raisers)
            raised = None
            try:
                if exc:
                    e = uni.mod.Oops("x")
                    probe.__exit__(type(e), e, None)
                elif api:
                    rng.choice([probe] + derived).deactivate()
                else:
                    probe.__exit__(None, None, None)
            except uni.mod.Oops as e_:
                raised = e_
            import ptera.probe as PP
            if bool(raisers) != (raised is not None):
                chk.violation("oracle", "deactivation with %d subscriber(s) raising at completion %s" % (
                    len(raisers), "raised " + repr(raised) if raised else "raised nothing"), {"selector": sel, "history": hist})
            if probe in PP.global_probes:
                chk.violation("oracle", "after its deactivation (a subscriber raised when the stream completed) the probe "
                              "is still registered as active", {"selector": sel, "history": hist})
            chk.dist("deactivation: a subscriber raises at completion" if raisers else "deactivation")
            active = False
            done = True
            for st in stages:
                st["live"] = False
        elif r < 0.5:
            attach()
        elif r < 0.53 and any(isinstance(nb, tuple) for nb in neighbours):
            # the released neighbour is deactivated a second time (refused or ignored): nothing of THIS probe may change
            released = [nb[1] for nb in neighbours if isinstance(nb, tuple)][0]
            try:
                released.__exit__(None, None, None)
            except Exception:
                pass
            hist.append({"op": "the released neighbour is deactivated a second time"})
        elif r < 0.58:
            # a suspended instrumented generator (started before this probe existed, perhaps) is advanced
            if uni.gen is None:
                uni.gen = uni.mod.hgen(10 ** 6)
                next(uni.gen)
            how = rng.choice(["next", "next", "close", "drop", "short", "short"])
            if how == "short":
                # a short generator: started now, or — if one is waiting — run to its end now
                short = getattr(uni, "shortgen", None)
                if short is None:
                    uni.shortgen = uni.mod.hgen(2)
                    next(uni.shortgen)
                    how = "short generator started"
                else:
                    for _ in short:
                        pass
                    uni.shortgen = None
                    how = "short generator run to its end"
            elif how == "next":
                next(uni.gen)
            elif how == "close":
                # … or closed / dropped while suspended: whoever does that keeps its context
                uni.gen.close()
                uni.gen = None
            else:
                uni.gen = None
                import gc
                gc.collect()
            hist.append({"op": "a suspended generator: " + how})
        else:
            f, x = rng.randrange(2), rng.randrange(0, 6)
            hist.append({"op": "call", "f": f, "x": x})
            model_ops.append({"op": "call", "f": f})
            uni.funs[f](x)
            if active and f == fi:
                val = {"a": [x + 1, x * 3][f], "b": [(x + 1) * 2, x * 3 + 7][f], "c": (x + 1) * 2 - x}[focus]
                for st in stages:
                    if st["live"]:
                        st["expected"].append(val)
        # ---- oracle after every step
        for si, st in enumerate(stages):
            exp = st["expected"]
            k = st["kind"]
            if k in ("accum", "raiser"):
                want = list(exp) + (["done"] if done and st["live"] is False and st_was_attached_before_done(st, stages, hist) else [])
            else:
                want = None
            got = st["out"]
            # events
            if k in ("accum", "raiser"):
                if [g for g in got if g != "done"] != exp:
                    chk.violation("oracle", "stage %d (accum) of %r holds %r, events delivered while attached and "
                                  "active were %r" % (si, sel, got, exp), {"selector": sel, "history": hist})
            if got.count("done") > 1:
                chk.violation("oracle", "stage %d completed %d times" % (si, got.count("done")),
                              {"selector": sel, "history": hist})
            if not done and k not in ("accum", "raiser") and got:
                chk.violation("oracle", "reducing stage %d (%s) published %r before the stream completed" % (si, k, got),
                              {"selector": sel, "history": hist})
    # ---- final: reductions publish exactly one result computed from exactly the delivered events
    if active:
        hist.append({"op": "deactivate", "exc": False})
        model_ops.append({"op": "deactivate", "p": 0})
        raisers = [st for st in stages if st["live"] and st["kind"] == "raiser"]
        try:
            probe.__exit__(None, None, None)
            raised = False
        except uni.mod.Oops:
            raised = True
        import ptera.probe as PP
        if bool(raisers) != raised or probe in PP.global_probes:
            chk.violation("oracle", "deactivation with %d subscriber(s) raising at completion: %s; the probe is %s "
                          "registered as active" % (len(raisers), "raised" if raised else "raised nothing",
                                                    "still" if probe in PP.global_probes else "no longer"),
                          {"selector": sel, "history": hist})
        done = True
        for st in stages:
            st["completed_now"] = st["live"]
            st["live"] = False
    uni.funs[fi](9)      # after deactivation: silence
    for nb in neighbours:
        if not isinstance(nb, tuple):
            nb.__exit__(None, None, None)
    hist.append({"op": "call", "f": fi, "x": 9})
    model_ops.append({"op": "call", "f": fi})
    for si, st in enumerate(stages):
        exp, k, got = st["expected"], st["kind"], st["out"]
        attached_before_done = st.get("attached_live", True)
        if k in ("accum", "raiser"):
            want_vals = exp
        elif k == "count":
            want_vals = [len(exp)]
        elif not exp:
            want_vals = None           # min/max/last of nothing: reactivex reports an error, not checked
        elif k == "sum":
            want_vals = [sum(exp)]
        elif k == "min":
            want_vals = [min(exp)]
        elif k == "max":
            want_vals = [max(exp)]
        else:
            want_vals = [exp[-1]]
        vals = [g for g in got if g != "done" and not str(g).startswith("ERR")]
        was_completed = activated and done and st_attached_while_open(si, hist)
        if want_vals is not None and was_completed and vals != want_vals:
            chk.violation("oracle", "stage %d (%s) of %r published %r, the events delivered during the active period "
                          "were %r" % (si, k, sel, got, exp), {"selector": sel, "history": hist})
        if was_completed and want_vals is not None and got.count("done") != 1:
            chk.violation("oracle", "stage %d (%s) completed %d times" % (si, k, got.count("done")),
                          {"selector": sel, "history": hist})
        if not was_completed and (vals if k not in ("accum", "raiser") else False):
            chk.violation("oracle", "stage %d (%s) attached after the stream ended published %r" % (si, k, got),
                          {"selector": sel, "history": hist})
    # ---- model correspondence: which stage received how many events, completion order
    req = {"op": "lifecycle", "fns": 2, "body": L.BODY, "varOf": uni.var_of, "probes": [spec], "ops": model_ops}
    trace = drv.ask(req)
    m_events = {}
    for m in trace:
        if isinstance(m["out"], dict):
            for (p, v, sts) in m["out"]["events"]:
                for s in sts:
                    m_events[s] = m_events.get(s, 0) + 1
    i_events = {si: len(st["expected"]) for si, st in enumerate(stages) if st["expected"]}
    i_accum_ok = all(len([g for g in st["out"] if g != "done"]) == len(st["expected"]) for st in stages if st["kind"] in ("accum", "raiser"))
    m_completed = [s for (_, s) in (trace[-1]["state"]["completed"] if trace else [])]
    i_completed = [si for si, st in enumerate(stages) if "done" in st["out"] or any(str(g).startswith("ERR") for g in st["out"])]
    stats["histories"] += 1
    chk.count(json.dumps([sel, hist], sort_keys=True),
              nontrivial=any(h["op"] == "deactivate" for h in hist) and any(st["expected"] for st in stages))
    for h in hist:
        chk.dist(h["op"])
    if m_events != i_events or sorted(m_completed) != sorted(i_completed) or not i_accum_ok:
        stats["disagreements"] += 1
        chk.violation("correspondence", "life-cycle model and implementation differ on stage delivery / completion",
                      {"selector": sel, "history": hist, "model_events": m_events, "impl_events": i_events,
                       "model_completed": m_completed, "impl_completed": i_completed})
    if stats["histories"] % 60 == 1:
        chk.sample({"selector": sel, "history": hist, "stages": [(s["kind"], s["out"]) for s in stages]})
    from ptera.overlay import HandlerCollection
    HandlerCollection.current.set(None)


def st_was_attached_before_done(st, stages, hist):
    return True


def st_attached_while_open(si, hist):
    """was stage number si attached before the deactivation?"""
    n = -1
    for h in hist:
        if h["op"] == "attach":
            n += 1
            if n == si:
                return True
        if h["op"] == "deactivate":
            if n < si:
                return False
    return True


def run(chk):
    drv = chk.open_driver()
    uni = L.Universe()
    chk.cov["rule"] = (
        "histories of 5-15 operations on one probe: build stages (accum, count, sum, min, max, last) before "
        "and during the active period and after it, activate, repeated activation attempts, calls of the "
        "probed and of another function, deactivation normally or as if by an exception, calls afterwards; "
        "non-trivial = the probe was deactivated in the history and at least one stage received an event")
    stats = {"histories": 0, "disagreements": 0}
    broken = 0
    for _ in range(300 if chk.tier == "quick" else 6000):
        try:
            run_history(chk, uni, drv, chk.rng, stats)
        except Exception as e:
            # a probe of a NEW history could not be set up: the histories before it left something behind in the
            # functions (every history ends with all its probes deactivated)
            broken += 1
            if broken <= 3:
                chk.violation("oracle", "after histories that deactivated all their probes, a fresh probe is refused or "
                              "fails: %s: %s" % (type(e).__name__, str(e)[:160]),
                              {"note": "state left behind by earlier histories of this run (seed %s)" % chk.seed})
            from ptera.overlay import HandlerCollection
            HandlerCollection.current.set(None)
            uni.drop()
            uni = L.Universe()
    chk.cov["correspondence"]["histories"] = stats
    exit_hook(chk, chk.rng)
    chk.assumptions += [
        "giving.SourceProxy (_push iterates the observers; __exit__ completes them, clears them, then calls _exit) and the reactivex operators are external: modelled and validated by this correspondence, not verified",
        "sum/min/max/last of an empty stream end with reactivex's SequenceContainsNoElementsError, delivered to the stage's error handler: the value is not checked (a subscriber that RAISES at completion is: finding F40)",
    ]
    uni.drop()


XSRC = """
def f(x):
    a = x * x
    return a

def g(x):
    b = x + 1
    return b
"""

XCHILD = """
import sys
sys.path.insert(0, %(repo)r)
from ptera import global_probe
%(src)s
%(setup)s
for i in range(%(n)d):
    f(i)
    g(i)
"""

REDUCE = {"count": len, "sum": sum, "min": min, "max": max, "last": lambda xs: xs[-1]}


def exit_hook(chk, rng):
    """global probes still active when the interpreter exits: the exit hook completes each of their streams,
    once (every reduction publishes its one result), whatever their number — the hook called in-process, and one
    real interpreter exit in a child process"""
    import subprocess
    import sys
    import ptera
    import ptera.probe as PP
    import pyprog
    sels = [("f > a", "a", lambda i: i * i), ("g > b", "b", lambda i: i + 1), ("f > x", "x", lambda i: i),
            ("g(x) > b", "b", lambda i: i + 1)]
    for _ in range(10 if chk.tier == "quick" else 200):
        mod = pyprog.make_module(XSRC, "verif_c17_exit")
        k = rng.randrange(1, 5)
        chosen = [rng.choice(sels) for _ in range(k)]
        probes, outs, kinds = [], [], []
        before = set(PP.global_probes)
        for sel, focus, _v in chosen:
            pr = ptera.global_probe(sel, env=mod.__dict__)
            kind = rng.choice(sorted(REDUCE))
            out = []
            getattr(pr[focus], kind)().subscribe(on_next=out.append, on_completed=lambda out=out: out.append("done"),
                                                 on_error=lambda e, out=out: out.append("ERR:" + type(e).__name__))
            probes.append(pr), outs.append(out), kinds.append(kind)
        n = rng.randrange(1, 5)
        for i in range(n):
            mod.f(i), mod.g(i)
        err = None
        try:
            PP._terminate_global_probes()
            mod.f(7), mod.g(7)                       # after the exit hook nothing is delivered
            PP._terminate_global_probes()            # and the hook has nothing left to do
        except BaseException as e:
            err = "%s: %s" % (type(e).__name__, str(e)[:120])
        left = [p for p in PP.global_probes if p not in before]
        want = [[REDUCE[kd]([v(i) for i in range(n)]), "done"] for (_s, _f, v), kd in zip(chosen, kinds)]
        desc = ["%s .%s()" % (c[0], kd) for c, kd in zip(chosen, kinds)]
        chk.count(("exit-hook", tuple(desc), n), nontrivial=k > 1)
        chk.dist("exit hook: %d global probe%s" % (k, "" if k == 1 else "s"))
        if err or left or outs != want:
            chk.violation("oracle", "global probes %s active at exit, %d calls: the exit hook %s; reductions published %s, "
                          "expected %s; still registered as active: %d" % (desc, n, "raised " + err if err else "returned",
                                                                          outs, want, len(left)),
                          {"source": XSRC, "probes": desc, "calls": n})
        for p in left:
            try:
                p.deactivate()
            except Exception:
                pass
        pyprog.drop_module(mod)
    # a real interpreter exit
    for _ in range(1 if chk.tier == "quick" else 6):
        k = rng.randrange(2, 5)
        chosen = [rng.choice(sels[:2] + sels[3:]) for _ in range(k)]
        kinds = [rng.choice(sorted(REDUCE)) for _ in range(k)]
        n = rng.randrange(1, 5)
        setup = "\n".join("p%d = global_probe(%r)\np%d[%r].%s().print('r%d={}')" % (j, c[0], j, c[1], kd, j)
                          for j, (c, kd) in enumerate(zip(chosen, kinds)))
        code = XCHILD % {"repo": core.REPO, "src": XSRC, "setup": setup, "n": n}
        import os
        import tempfile
        with tempfile.TemporaryDirectory(prefix="verif_c17_") as td:      # ptera reads the functions' source
            with open(os.path.join(td, "child.py"), "w") as fh:
                fh.write(code)
            res = subprocess.run([sys.executable, os.path.join(td, "child.py")], capture_output=True, text=True, timeout=120)
        want = sorted("r%d=%s" % (j, REDUCE[kd]([c[2](i) for i in range(n)])) for j, (c, kd) in enumerate(zip(chosen, kinds)))
        got = sorted(res.stdout.split())
        chk.count(("exit-hook-child", setup, n), nontrivial=True)
        chk.dist("exit hook: real interpreter exit")
        if got != want or res.returncode != 0:
            chk.violation("oracle", "a child interpreter exits with %d global probes active: published %s, expected %s "
                          "(exit status %d; stderr: %s)" % (k, got, want, res.returncode, res.stderr.strip()[-200:]),
                          {"child": code})


def replay(chk, path):
    data = json.load(open(path))
    for v in data.get("violations", []) + data.get("model_disagreements", []):
        print("replay:", v["what"][:300]); print("  ", json.dumps(v["replay"])[:600])
    return 1 if data.get("violations") else 0
