"""C08 — overlays and probes in concurrent threads do not interfere.   (partial)

proof leg      Props/C08.lean: lock discipline of the GENERATED step skeleton (decide); every schedule of
               two threads over the generated programs is good (reachable set closed + good, kernel
               evaluated); atomic-level invariant for any number of threads; no-lock witness
correspondence real threads under a deterministic line-level scheduler (sys.settrace) vs the model:
               shared counters / installed-code identity after every scheduled step
oracle         each thread receives exactly the events of its own call, returns the sequential value;
               after all threads are done the function is on its original code with zero counters
search         when the tie breaks the compiled model searches the generated programs for a bad
               schedule and the scheduler replays it on real threads
"""
import json

import core
import pyprog
import sched as S

SRC = '''
def f(x):
    a = x + 1
    b = a * 2
    return b

def g(y):
    c = y - 1
    return c
'''
CONFIGS = [
    (["f > a", "f > b"], [[0], [1]]),
    (["f > a", "f > a"], [[0], [0]]),
    (["f(a) > b", "f > b"], [[0, 1], [1]]),
]
# bystanders (selector None): their own probe is on g, they call f while the others (de)activate probes on f
BCONFIGS = [
    (["f > a", None], [[0], []]),
    (["f(a) > b", None, None], [[0, 1], [], []]),
]


def expected_events(sel, x):
    a, b = x + 1, (x + 1) * 2
    return {"f > a": [{"a": a}], "f > b": [{"b": b}], "f(a) > b": [{"a": a, "b": b}], None: []}[sel]


def impl_state(mod, orig):
    f = mod.f
    st = getattr(f, "__ptera_stack__", None)
    caps = {}
    if st is not None:
        for el, n in st.captures.items():
            if n > 0:
                caps[el.name] = caps.get(el.name, 0) + n
    return {"count": 0 if st is None else st.instrument_count, "caps": caps, "orig": f.__code__ is orig,
            "info": hasattr(f, "__ptera_info__")}


def run_one(chk, drv, sels, owns, schedule, lines, stats, names):
    """one schedule on real threads, compared with the model step by step"""
    import ptera
    mod = pyprog.make_module(SRC, "verif_c08")
    orig = mod.f.__code__
    n = len(sels)
    m = drv.ask({"op": "sched_run", "owns": owns, "schedule": schedule})
    steps = [(st["t"], st["pc"]) for st in m["steps"] if st["enabled"]]
    model_sh = [st["sh"] for st in m["steps"] if st["enabled"]]
    probes = [ptera.Probe(s if s is not None else "g > c", env=mod.__dict__) for s in sels]
    outs = [p.accum() for p in probes]
    rets = [None] * n
    args = [3 + i for i in range(n)]

    def worker(tid, ctrl):
        probes[tid].__enter__()
        ctrl.arrive(tid, ("call", 0))
        try:
            rets[tid] = mod.f(args[tid])
        finally:
            if sels[tid] is None:
                # a bystander keeps its probe (and stays away from the tooling lock) until the schedule is over
                ctrl.arrive(tid, ("end", 0))
            probes[tid].__exit__(None, None, None)

    expected = [lines["tool"] + [("call", 0)] + lines["untool"] if sels[tid] is not None
                else lines["bystander"] + [("end", 0)] for tid in range(n)]
    problem = None
    k = 0
    try:
        for (tid, pc, ran), msh in zip(S.run_schedule([worker] * n, expected, steps), model_sh):
            k += 1
            ist = impl_state(mod, orig)
            mcaps = {}
            for c, cnt in msh["caps"]:
                mcaps[names[c]] = mcaps.get(names[c], 0) + cnt
            # compare at points where the model's lock is free (inside the critical section the real
            # code is in the middle of a line group only when it skipped no-op groups)
            if (ist["count"], ist["caps"], ist["orig"], ist["info"]) != (msh["count"], mcaps, msh["orig"], msh["info"]):
                problem = {"step": k, "thread": tid, "pc": pc, "impl": ist, "model": msh}
                break
    except S.Stuck as e:
        stats["stuck"] += 1
        problem = None
        chk.dist("stuck")
    except Exception as e:
        # a worker thread failed: with sequential execution activation / call / deactivation never raise
        chk.violation("oracle", "a thread raised %s: %s under this schedule (sequentially nothing is raised)" % (
            type(e).__name__, str(e)[:160]), {"selectors": sels, "schedule": schedule, "effective": steps})
        stats["schedules"] += 1
        pyprog.drop_module(mod)
        return
    stats["schedules"] += 1
    stats["steps"] += len(steps)
    final = impl_state(mod, orig)
    # ---- oracle
    for tid in range(n):
        if list(outs[tid]) != expected_events(sels[tid], args[tid]) or rets[tid] != (args[tid] + 1) * 2:
            chk.violation("oracle", "thread %d (probe %r) observed %r and got %r; sequentially it observes %r and gets %r" % (
                tid, sels[tid], list(outs[tid]), rets[tid], expected_events(sels[tid], args[tid]), (args[tid] + 1) * 2),
                {"selectors": sels, "schedule": schedule, "effective": steps})
    if not final["orig"] or final["count"] != 0 or final["caps"]:
        chk.violation("oracle", "all threads finished but f: original code=%s instrument_count=%s captures=%s" % (
            final["orig"], final["count"], final["caps"]), {"selectors": sels, "schedule": schedule, "effective": steps})
    if problem:
        stats["disagreements"] += 1
        chk.violation("correspondence", "thread model and implementation differ after scheduled step %d" % problem["step"],
                      {"selectors": sels, "schedule": schedule, "detail": problem})
    if not m["good"]:
        chk.violation("correspondence", "the model itself reaches a bad state on this schedule", {"schedule": schedule})
    pyprog.drop_module(mod)


def free_search(chk, stats, n_sched):
    """the step skeleton could not be extracted (or is empty): search for a failing schedule on the
    implementation alone, stopping the threads before every line of the tooling functions"""
    import importlib
    import inspect
    import ptera
    ov = importlib.import_module("ptera.overlay")
    tr = importlib.import_module("ptera.transform")
    stops = set()
    for mod, objs in ((ov, [ov._tooler, ov._untooler]),
                      (tr, [tr.SyncedStackedTransforms.push, tr.SyncedStackedTransforms.pop,
                            tr.SyncedStackedTransforms._apply, tr.StackedTransforms.push,
                            tr.StackedTransforms.pop, tr.StackedTransforms.get])):
        import os
        for o in objs:
            src, first = inspect.getsourcelines(o)
            for i in range(len(src)):
                stops.add((os.path.basename(mod.__file__), first + i))
    rng = chk.rng
    marks = {}       # number of stops a thread makes before it arrives at its call (measured on the first schedule)
    extra = 60 if n_sched >= 100 else 0
    for k in range(n_sched + extra):
        sels, owns = CONFIGS[k % len(CONFIGS)]
        i, j = rng.randrange(0, 40), rng.randrange(0, 40)
        if k % 2 == 0:
            schedule = [0] * i + [1] * j + [0] * 60 + [1] * 60
            sched_text = "thread 0: %d stops, thread 1: %d stops, then both to the end" % (i, j)
        else:
            # thread 1 gets as far as its call (or further), thread 0 stops somewhere in the middle of its own
            # activation / deactivation, thread 1 makes a few more steps
            m = rng.randrange(1, 4)
            schedule = [1] * j + [0] * i + [1] * m + [0] * 60 + [1] * 60
            sched_text = "thread 1: %d stops, thread 0: %d stops, thread 1: %d more, then both to the end" % (j, i, m)
        # every third schedule: thread 1 probes, calls and leaves TWICE (a fresh probe on the same variable) while
        # thread 0 is somewhere in its own activation / call / deactivation
        twice = k % 3 == 2
        if n_sched >= 100 and k < 75:
            # systematically: thread 0 is stopped after k of its stops (everywhere in its activation, call and
            # deactivation), thread 1 runs from start to end there, then thread 0 finishes
            twice = False
            sels, owns = CONFIGS[0]
            schedule = [0] * k + [1] * 400 + [0] * 400
            sched_text = "thread 0: %d stops, thread 1 from start to end, then thread 0 to the end" % k
        if k >= n_sched:
            # systematically: thread 1 has activated its probe and waits at its call; thread 0 is stopped after each
            # number of its own stops in turn; thread 1 then makes its call (its FIRST one under that selector)
            twice = False
            sels, owns = CONFIGS[0]
            a1 = marks.get(1, 30)
            schedule = [1] * a1 + [0] * (k - n_sched) + [1] * 400 + [0] * 400
            sched_text = ("thread 1 activates and waits at its call, thread 0: %d stops, thread 1 to the end, then "
                          "thread 0 to the end" % (k - n_sched))
        if twice:
            sels, owns = CONFIGS[0]
            schedule = [0] * i + [1] * 400 + [0] * 60
            sched_text = "thread 0: %d stops, thread 1 to the end (two rounds of probe / call / leave), then thread 0" % i
        mod = pyprog.make_module(SRC, "verif_c08_free")
        orig = mod.f.__code__
        probes = [ptera.Probe(s, env=mod.__dict__) for s in sels]
        outs = [p.accum() for p in probes]
        again = ptera.Probe(sels[1], env=mod.__dict__)
        out_again = again.accum()
        rets = [None, None]
        args = [3, 4]

        def worker(tid, ctrl):
            probes[tid].__enter__()
            marks.setdefault(tid, ctrl.arrivals[tid])
            ctrl.arrive(tid, ("call", 0))          # a scheduling point between activation and call
            rets[tid] = mod.f(args[tid])
            probes[tid].__exit__(None, None, None)
            if twice and tid == 1:
                again.__enter__()
                mod.f(args[tid])
                again.__exit__(None, None, None)
        try:
            S.run_free([worker, worker], stops, schedule)
        except S.Stuck:
            stats["stuck"] += 1
            continue
        except Exception as e:
            chk.violation("oracle", "a thread raised %s: %s under a forced interleaving (sequentially nothing is raised)" % (
                type(e).__name__, str(e)[:160]), {"selectors": sels, "schedule": sched_text})
            continue
        finally:
            pass
        stats["schedules"] += 1
        chk.count(("free", k), nontrivial=True)
        final = impl_state(mod, orig)
        for tid in range(2):
            if list(outs[tid]) != expected_events(sels[tid], args[tid]) or rets[tid] != (args[tid] + 1) * 2:
                chk.violation("oracle", "thread %d (probe %r) observed %r and got %r; sequentially it observes %r and gets %r" % (
                    tid, sels[tid], list(outs[tid]), rets[tid], expected_events(sels[tid], args[tid]), (args[tid] + 1) * 2),
                    {"selectors": sels, "schedule": sched_text})
        if twice and list(out_again) != expected_events(sels[1], args[1]):
            chk.violation("oracle", "thread 1, second round (a fresh probe %r): observed %r; sequentially it observes %r" % (
                sels[1], list(out_again), expected_events(sels[1], args[1])), {"selectors": sels, "schedule": sched_text})
        if not final["orig"] or final["count"] != 0 or final["caps"]:
            chk.violation("oracle", "all threads finished but f: original code=%s instrument_count=%s captures=%s" % (
                final["orig"], final["count"], final["caps"]),
                {"selectors": sels, "schedule": sched_text})
        pyprog.drop_module(mod)


def run(chk):
    drv = chk.open_driver()
    rng = chk.rng
    info = drv.ask({"op": "sched", "owns": [[0], [1]], "fuel": 400})
    if not info["tool_lines"] or not info["untool_lines"]:
        # broken tie (recorded by the proof leg): no step skeleton to follow
        stats = {"schedules": 0, "steps": 0, "disagreements": 0, "stuck": 0}
        chk.cov["rule"] = ("step skeleton unavailable: model-free forced interleavings of two threads, stopping before "
                           "every source line of the tooling functions")
        free_search(chk, stats, 120 if chk.tier == "quick" else 1500)
        chk.cov["correspondence"]["schedules"] = stats
        return
    lines = {"tool": [tuple(x) for x in info["tool_lines"]], "untool": [tuple(x) for x in info["untool_lines"]],
             "bystander": [tuple(x) for x in info["bystander_lines"]]}
    plen = info["program_length"]
    chk.cov["model_search"] = {"disciplined": info["disciplined"], "bad_schedule": info["bad_schedule"],
                               "program_groups": plen}
    chk.cov["rule"] = (
        "bystander threads (own probe on another function g) calling f at every pair of positions inside a probing "
        "thread's activate / call / deactivate program; "
        "two threads, each activate(own probe) / call f / deactivate, on one shared function, with distinct, "
        "identical and overlapping captured variables; schedules: every split 'thread 0 runs i line groups, "
        "thread 1 runs j, thread 0 finishes, thread 1 finishes' (two preemptions) sampled in quick and "
        "complete in thorough, plus random schedules; a line group = one source line of the generated step "
        "skeleton (%d groups per thread); non-trivial = both threads are inside their active period at the "
        "same time at some point" % plen)
    stats = {"schedules": 0, "steps": 0, "disagreements": 0, "stuck": 0}
    names_for = {0: ["a", "b"], 1: ["a"], 2: ["a", "b"]}
    scheds = []
    for i in range(plen + 1):
        for j in range(plen + 1):
            scheds.append([0] * i + [1] * j + [0] * plen + [1] * plen)
    if chk.tier == "quick":
        scheds = rng.sample(scheds, 60)
    for _ in range(40 if chk.tier == "quick" else 600):
        scheds.append([rng.randrange(2) for _ in range(3 * plen)] + [0] * plen + [1] * plen)
    for ci, (sels, owns) in enumerate(CONFIGS):
        for sch in (scheds if ci == 0 or chk.tier != "quick" else scheds[::3]):
            both = 0 < sch.index(1) if 1 in sch else False
            chk.count((ci, tuple(sch)), nontrivial=True)
            run_one(chk, drv, sels, owns, sch, lines, stats, names_for[ci])
    # ---- bystanders: every position of the bystander's two steps inside the prober's program
    names_b = {0: ["a"], 1: ["a", "b"]}
    for bi, (sels, owns) in enumerate(BCONFIGS):
        nb = len(sels) - 1
        bs = []
        for i in range(plen + 1):
            for j in range(plen + 1 - i):
                for k in (range(1) if nb == 1 else range(0, plen + 1 - i - j, 3)):
                    sch = [0] * i + [1] + [0] * j + ([1] if nb == 1 else [2]) + [0] * k + ([] if nb == 1 else [1, 2])
                    bs.append(sch + [0] * plen + [1, 1, 2, 2])
        if chk.tier == "quick":
            bs = rng.sample(bs, min(len(bs), 60 if bi == 0 else 30))
        for sch in bs:
            chk.count(("bystander", bi, tuple(sch)), nontrivial=True)
            chk.dist("bystander")
            run_one(chk, drv, sels, owns, sch, lines, stats, names_b[bi])
        r = drv.ask({"op": "sched", "owns": owns, "fuel": 400})
        chk.cov["model_search"]["bystander_bad_schedule_%d" % bi] = r["bad_schedule"]
        if r["bad_schedule"] is not None:
            run_one(chk, drv, sels, owns, r["bad_schedule"] + [0] * plen + [1, 1, 2, 2], lines, stats, names_b[bi])
    chk.cov["correspondence"]["schedules"] = stats
    chk.sample({"selectors": CONFIGS[0][0], "schedule": scheds[0]})
    # ---- search: does the generated program (as extracted now) admit a bad schedule?
    if info["bad_schedule"] is not None or not info["disciplined"]:
        for sels, owns in CONFIGS:
            r = drv.ask({"op": "sched", "owns": owns, "fuel": 400})
            if r["bad_schedule"] is not None:
                run_one(chk, drv, sels, owns, r["bad_schedule"] + [0] * plen + [1] * plen, lines, stats,
                        names_for[CONFIGS.index((sels, owns))])
    # ---- model-free forced interleavings as well (they include a thread that probes / calls / leaves twice)
    fstats = {"schedules": 0, "steps": 0, "disagreements": 0, "stuck": 0}
    free_search(chk, fstats, 18 if chk.tier == "quick" else 120)
    chk.cov["correspondence"]["model_free_schedules"] = fstats
    if chk.tier == "thorough":
        r3 = drv.ask({"op": "sched", "owns": [[0], [1], [0, 2]], "fuel": 400})
        chk.cov["model_search"]["three_threads_bad_schedule"] = r3["bad_schedule"]
        if r3["bad_schedule"] is not None:
            chk.broken.append("model search: three threads reach a bad state: %s" % r3["bad_schedule"])
    chk.assumptions += [
        "PARTIAL: atomicity unit = one source line of the step skeleton under CPython 3.12's GIL; ContextVar values are per thread; single dict/Counter operations are atomic; memory-model effects below that granularity, free-threaded builds and signal handlers are not exhibited by the model",
        "three threads at line level are explored by the compiled model only (thorough tier), not in the kernel",
    ]


def replay(chk, path):
    data = json.load(open(path))
    for v in data.get("violations", []) + data.get("model_disagreements", []):
        print("replay:", v["what"][:300]); print("  ", json.dumps(v["replay"])[:600])
    return 1 if data.get("violations") else 0
