"""C12 — value conditions.

proof leg      Props/C12.lean over Generated/Tools.lean (translated from ptera/tools.py)
correspondence translated definitions (Lean driver) vs ptera.tools on an integer box
oracle         ptera.tools vs the arithmetic reference predicate stated by the property;
               end-to-end: constrained selector's events == unconstrained events filtered
"""
import itertools

import core
import pyprog


def ref_every(n, s, e, v):
    """the property's own words (start/end None = unbounded, as the code documents)"""
    if s is not None and v < s:
        return False
    if e is not None and v >= e:
        return False
    if n is None:
        return True
    return (v - (s or 0)) % n == 0


def impl_call(fn):
    try:
        return {"ok": fn()}
    except ZeroDivisionError:
        return {"err": "ZeroDivisionError"}
    except TypeError:
        return {"err": "TypeError"}


def arithmetic(chk):
    import importlib
    tools = importlib.import_module("ptera.tools")
    drv = chk.open_driver()
    B = 4 if chk.tier == "quick" else 9
    box = list(range(-B, B + 1))
    opt = [None] + box
    reqs, impl, meta = [], [], []
    # every(modulo, start, end)(v): full box, None included for every optional
    for n, s, e, v in itertools.product(opt, opt, opt, box):
        reqs.append({"op": "tools", "fn": "every", "modulo": n, "start": s, "end": e, "v": v})
        impl.append(impl_call(lambda: tools.every(n, s, e)(v)))
        meta.append(("every", n, s, e, v))
    for s, e, v in itertools.product(box, box, box):
        reqs.append({"op": "tools", "fn": "between", "modulo": None, "start": s, "end": e, "v": v})
        impl.append(impl_call(lambda: tools.between(s, e)(v)))
        meta.append(("between", None, s, e, v))
    for name in ("lt", "gt", "lte", "gte"):
        for a, v in itertools.product(box, box):
            reqs.append({"op": "tools", "fn": name, "a": a, "v": v})
            impl.append(impl_call(lambda: getattr(tools, name)(a)(v)))
            meta.append((name, a, v))
    # random larger magnitudes
    for _ in range(3000 if chk.tier == "quick" else 60000):
        n = chk.rng.choice([None] + [x for x in range(-50, 51)])
        s = chk.rng.choice([None] + list(range(-200, 200)))
        e = chk.rng.choice([None] + list(range(-200, 200)))
        v = chk.rng.randrange(-300, 300)
        reqs.append({"op": "tools", "fn": "every", "modulo": n, "start": s, "end": e, "v": v})
        impl.append(impl_call(lambda: tools.every(n, s, e)(v)))
        meta.append(("every", n, s, e, v))
    # throttle sequences (stateful; correspondence only)
    for _ in range(300 if chk.tier == "quick" else 5000):
        period = chk.rng.randrange(1, 6)
        cur = chk.rng.randrange(-5, 5)
        vs = []
        for _ in range(chk.rng.randrange(1, 12)):
            cur += chk.rng.choice([0, 1, 1, 2, 3, 7])
            vs.append(cur)
        reqs.append({"op": "tools", "fn": "throttle", "period": period, "vs": vs})
        th = tools.throttle(period)
        impl.append({"ok": [th(v) for v in vs]})
        meta.append(("throttle", period, vs))
    model = drv.ask_many(reqs)
    n_corr = 0
    for m, i, mt in zip(model, impl, meta):
        chk.count(mt if mt[0] != "throttle" else ("throttle", mt[1], tuple(mt[2])))
        chk.dist(mt[0])
        if m != i:
            n_corr += 1
            chk.violation("correspondence", "translated %s differs from ptera.tools" % mt[0],
                          {"case": mt, "model": m, "impl": i})
        # oracle on the implementation (independent of the model)
        if mt[0] == "every":
            _, n, s, e, v = mt
            if n == 0:
                continue  # outside the stated domain (division by zero), see C12_every_zero_raises
            if i != {"ok": ref_every(n, s, e, v)}:
                chk.violation("oracle", "every(%r,%r,%r)(%r) = %r, the stated predicate gives %r" % (
                    n, s, e, v, i, ref_every(n, s, e, v)), {"call": "every", "args": [n, s, e, v]})
        elif mt[0] == "between":
            _, _, s, e, v = mt
            if i != {"ok": s <= v < e}:
                chk.violation("oracle", "between(%r,%r)(%r) = %r" % (s, e, v, i),
                              {"call": "between", "args": [s, e, v]})
        elif mt[0] in ("lt", "gt", "lte", "gte"):
            name, a, v = mt
            want = {"lt": v < a, "gt": v > a, "lte": v <= a, "gte": v >= a}[name]
            if i != {"ok": want}:
                chk.violation("oracle", "%s(%r)(%r) = %r" % (name, a, v, i), {"call": name, "args": [a, v]})
    chk.cov["correspondence"]["tools_cases"] = len(reqs)
    chk.cov["correspondence"]["tools_disagreements"] = n_corr
    chk.sample({"tools": reqs[7], "model": model[7], "impl": impl[7]})
    chk.sample({"tools": reqs[-1], "model": model[-1], "impl": impl[-1]})


SRC = '''
def f(n, k, c):
    x = c
    for i in range(n):
        x = i * k + c
        y = x - i
    return x

def g(a, n, k, c):
    r = f(n, k, c)
    a = a + 1
    r = f(n, k + 1, c)
    return r
'''


def endtoend(chk):
    """constrained selector == unconstrained selector filtered by the reference predicate"""
    import ptera
    from ptera import tools
    mod = pyprog.make_module(SRC, "verif_c12")
    env = dict(mod.__dict__)
    env.update(every=tools.every, between=tools.between, lt=tools.lt, gt=tools.gt, lte=tools.lte,
               gte=tools.gte)
    preds = []
    rng = chk.rng
    N = 40 if chk.tier == "quick" else 600
    for _ in range(N):
        kind = rng.choice(["every", "every3", "between", "lt", "gt", "lte", "gte", "eq"])
        a, b, m = rng.randrange(-3, 6), rng.randrange(0, 12), rng.choice([1, 2, 3, 4, -2, -3])
        if kind == "every":
            preds.append(("~every(%d)" % m, lambda v, m=m: ref_every(m, 0, None, v)))
        elif kind == "every3":
            preds.append(("~every(%d,%d,%d)" % (m, a, b), lambda v, m=m, a=a, b=b: ref_every(m, a, b, v)))
        elif kind == "between":
            preds.append(("~between(%d,%d)" % (a, b), lambda v, a=a, b=b: a <= v < b))
        elif kind == "eq":
            preds.append(("=%d" % a, lambda v, a=a: v == a))
        else:
            op = {"lt": lambda v, a: v < a, "gt": lambda v, a: v > a,
                  "lte": lambda v, a: v <= a, "gte": lambda v, a: v >= a}[kind]
            preds.append(("~%s(%d)" % (kind, a), lambda v, a=a, op=op: op(v, a)))
    shapes = [
        # (constrained selector template, unconstrained selector, constrained capture)
        ("f(i{P}) > x", "f(i) > x", "i"),
        ("f(!x{P})", "f(!x)", "x"),
        ("f(x{P}) > y", "f(x) > y", "x"),
        ("g(a{P}) > f > x", "g(a) > f > x", "a"),
        ("g(a{P}) > f(i) > y", "g(a) > f(i) > y", "a"),
        # the only condition sits on a call BELOW the outermost one
        ("g > f(i{P}) > x", "g > f(i) > x", "i"),
        ("g(a) > f(x{P}) > y", "g(a) > f(x) > y", "x"),
        # the constrained variable is captured under another name
        ("f(i as step{P}) > x", "f(i as step) > x", "step"),
        ("g(a as first{P}) > f(i as step) > y", "g(a as first) > f(i as step) > y", "first"),
    ]
    n_events = 0
    for (ptxt, pfn) in preds:
        shape = rng.choice(shapes)
        n, k, c, a0 = rng.randrange(0, 7), rng.randrange(-2, 4), rng.randrange(-3, 4), rng.randrange(-3, 6)
        csel = shape[0].replace("{P}", ptxt)
        usel, cap = shape[1], shape[2]
        ptxt2, pfn2 = rng.choice(preds)
        cap2 = None
        if rng.random() < 0.35:
            # two conditions; the first-listed variable (y) is bound AFTER the focus: not captured yet on the first
            # iteration (its condition imposes nothing then), one iteration behind afterwards
            csel, usel, cap, cap2 = ("f(y%s, i%s) > x" % (ptxt2, ptxt), "f(y, i) > x", "i", "y")
            if rng.random() < 0.5:
                csel = "f(i%s, y%s) > x" % (ptxt, ptxt2)
        with ptera.probing(usel, env=env).values() as un:
            r0 = mod.g(a0, n, k, c)
        with ptera.probing(csel, env=env).values() as co:
            r1 = mod.g(a0, n, k, c)
        want = [ev for ev in un if (cap not in ev or pfn(ev[cap])) and (cap2 is None or cap2 not in ev or pfn2(ev[cap2]))]
        chk.count((csel, n, k, c, a0), nontrivial=bool(un) and len(want) != len(un))
        chk.dist("e2e:" + (shape[0] if cap2 is None else "two conditions, one on a variable bound after the focus"))
        n_events += len(un)
        if list(co) != want or r0 != r1:
            chk.violation("oracle", "selector %r delivered %d events, the stated filter gives %d" % (
                csel, len(co), len(want)),
                {"selector": csel, "unconstrained": usel, "args": [a0, n, k, c],
                 "got": list(co), "want": want})
        # override under the same condition and not otherwise
        if shape[0] == "f(i{P}) > x" and cap2 is None:
            with ptera.probing(csel, env=env, overridable=True) as prb:
                prb.override(lambda d: 1000)
                with ptera.probing("f(i) > y", env=env).values() as ys:
                    mod.f(n, k, c)
            want_y = [{"i": i, "y": (1000 if pfn(i) else i * k + c) - i} for i in range(n)]
            if list(ys) != want_y:
                chk.violation("oracle", "override on %r not applied exactly under the condition" % csel,
                              {"selector": csel, "args": [n, k, c], "got": list(ys), "want": want_y})
            chk.count(("ov", csel, n, k, c))
            # two conditional overrides of the same variable: one that declines (its condition fails) leaves what
            # the other decided; when both hold the most recently activated wins
            csel2 = "f(i%s) > x" % ptxt2
            with ptera.probing(csel, env=env, overridable=True) as prb:
                prb.override(lambda d: 1000)
                with ptera.probing(csel2, env=env, overridable=True) as prb2:
                    prb2.override(lambda d: 2000)
                    with ptera.probing("f(i) > y", env=env).values() as ys:
                        mod.f(n, k, c)
            want_y = [{"i": i, "y": (2000 if pfn2(i) else 1000 if pfn(i) else i * k + c) - i} for i in range(n)]
            if list(ys) != want_y:
                chk.violation("oracle", "overrides on %r and (activated later) %r: not applied exactly under their "
                              "conditions" % (csel, csel2),
                              {"selector": csel, "second": csel2, "args": [n, k, c], "got": list(ys), "want": want_y})
            chk.count(("ov2", csel, csel2, n, k, c), nontrivial=any(pfn(i) != pfn2(i) for i in range(n)))
    # ---- conditions on a variable of a function BELOW the outermost one that is bound after the focus: every
    # activation starts with nothing captured (what an earlier activation under the same outer call captured
    # constrains nothing); the expectation is computed from the program, not from another probe
    def f_events(n, k, c):
        evs, y = [{"x": c}], None
        for i in range(n):
            x = i * k + c
            evs.append({"x": x} if y is None else {"x": x, "y": y})
            y = x - i
        return evs
    for (ptxt, pfn) in preds[:max(8, len(preds) // 4)]:
        n, k, c, a0 = rng.randrange(1, 6), rng.randrange(-2, 4), rng.randrange(-3, 4), rng.randrange(-3, 6)
        csel = "g > f(y%s) > x" % ptxt
        with ptera.probing(csel, env=env).values() as co:
            mod.g(a0, n, k, c)
        want = [ev for ev in f_events(n, k, c) + f_events(n, k + 1, c) if "y" not in ev or pfn(ev["y"])]
        chk.count((csel, n, k, c, a0), nontrivial=True)
        chk.dist("e2e:condition on a variable bound after the focus, below the outermost call")
        if list(co) != want:
            chk.violation("oracle", "selector %r delivered %s, the stated filter gives %s" % (csel, str(list(co))[:120], str(want)[:120]),
                          {"selector": csel, "args": [a0, n, k, c], "got": list(co), "want": want})
    # ---- equality conditions on values that only LOOK alike to a hash table (hash(-1) == hash(-2), hash(0) ==
    # hash(2**61 - 1), 1 == True == 1.0): each selector filters by its own value, whichever was compiled first
    for v1, v2 in ((-1, -2), (-2, -1), (0, 2 ** 61 - 1), (2 ** 61 - 1, 0), (1, 2), (1, 3)):
        got = []
        for v in (v1, v2):
            with ptera.probing("f(c=%d) > x" % v, env=env).values() as evs:
                mod.f(2, 1, v1)
                mod.f(2, 1, v2)
            got.append(list(evs))
        want = [[{"c": v, "x": v}, {"c": v, "x": v}, {"c": v, "x": 1 + v}] for v in (v1, v2)]
        chk.count(("eq-pair", v1, v2), nontrivial=True)
        chk.dist("e2e:equality on hash-alike values")
        if got != want:
            chk.violation("oracle", "selectors f(c=%d) > x and then f(c=%d) > x over the calls f(2, 1, %d), f(2, 1, %d): "
                          "delivered %s, the stated filter gives %s" % (v1, v2, v1, v2, str(got)[:160], str(want)[:160]),
                          {"selectors": ["f(c=%d) > x" % v1, "f(c=%d) > x" % v2], "got": got, "want": want})
    # ---- cumulative probes: a capture holds every value the variable took; the record is delivered iff EVERY one
    # of them satisfies the condition
    for (ptxt, pfn) in preds[:max(8, len(preds) // 4)] + [("=%d" % v, (lambda w, v=v: w == v)) for v in (0, 1, 2)]:
        n, k, c = rng.randrange(0, 5), rng.randrange(-2, 4), rng.randrange(-3, 4)
        csel, usel = "f(i%s, x)" % ptxt, "f(i, x)"

        def records(sel):
            with ptera.probing(sel, env=env, probe_type="total", raw=True).values() as recs:
                mod.f(n, k, c)
            return [{kk: list(cap.values) for kk, cap in r.items()} for r in recs]
        un, co = records(usel), records(csel)
        want = [r for r in un if all(pfn(v) for v in r.get("i", []))]
        chk.count((csel, "total", n, k, c), nontrivial=bool(un) and want != un)
        chk.dist("e2e:cumulative probe")
        if co != want:
            chk.violation("oracle", "cumulative selector %r delivered %s, the stated filter gives %s" % (csel, str(co)[:120], str(want)[:120]),
                          {"selector": csel, "probe_type": "total", "args": [n, k, c], "got": co, "want": want})
    chk.cov["oracle"]["e2e_selectors"] = len(preds)
    chk.cov["oracle"]["e2e_events_seen"] = n_events
    chk.sample({"e2e_selector": shapes[0][0].replace("{P}", preds[0][0])})
    pyprog.drop_module(mod)


def gen_handlers(rng, fam):
    import treegen
    hs = []
    for _ in range(rng.choice([1, 1, 2])):
        kind = rng.choice(["immediate", "immediate", "override", "total"])
        sel = treegen.gen_level(rng, fam, rng.randrange(0, 3), kind != "total", conds=True, tags=False)
        # force at least one condition
        if "=" not in sel and "~" not in sel:
            sel = sel.replace("(", "(%s=%d, " % (rng.choice(treegen.VARS), rng.randrange(0, 6)), 1).replace(", )", ")")
        if kind == "override":
            hs.append({"kind": "immediate", "selector": sel, "intercept": {"o": "const", "v": 9}})
        else:
            hs.append({"kind": kind, "selector": sel, "trigger": kind == "immediate"})
    return hs


def run(chk):
    chk.cov["rule"] = (
        "arithmetic: the integer box [-B,B] (None included for optional arguments) enumerated "
        "exhaustively for every/between/lt/gt/lte/gte (B=4 quick, 9 thorough) plus random larger "
        "magnitudes and throttle sequences; a case is the argument tuple, all are distinct. "
        "end-to-end: random constrained selectors over a loop program; non-trivial = the condition "
        "filtered out at least one event and kept the comparison stream non-empty")
    chk.cov["exhaustive"] = True
    chk.assumptions += [
        "every(0, …) is outside the stated domain (the code raises ZeroDivisionError; theorem C12_every_zero_raises)",
        "throttle is a stateful predicate: only model/implementation correspondence is claimed for it",
    ]
    arithmetic(chk)
    endtoend(chk)
    # runtime model M3 vs implementation on call trees with value conditions at several stack levels
    from props import c03
    nf, nc = (3, 100) if chk.tier == "quick" else (16, 400)
    c03.run_cases(chk, nf, nc, gen_handlers, None, label="tree_conditions")


def replay(chk, path):
    import json
    import importlib
    tools = importlib.import_module("ptera.tools")
    data = json.load(open(path))
    bad = 0
    for v in data.get("violations", []):
        r = v["replay"]
        if "call" in r:
            fn = getattr(tools, r["call"])
            *args, val = r["args"]
            got = impl_call(lambda: fn(*args)(val))
            print("replay %s%r(%r) -> %r" % (r["call"], tuple(args), val, got))
            bad += 1
    return 1 if bad else 0
