"""C10 — every name a function binds or reads is selectable; absent names are refused.

proof leg      Props/C10.lean
oracle         Python's own symbol table (symtable module) of the generated source: every parameter, local,
               free (closure) and read global/builtin of the function must be selectable with the matching
               provenance; names occurring nowhere are refused with SelectorError before anything runs;
               unresolvable functions, undocumented meta-variables and non-functions are refused with the
               documented error class
"""
import json
import symtable

import core
import m2corr
import pylite
import progrun
import pyprog


def function_table(src, name):
    top = symtable.symtable(src, "<gen>", "exec")

    def find(t):
        for c in t.get_children():
            if c.get_type() == "function" and c.get_name() == name:
                return c
            r = find(c)
            if r:
                return r
        return None
    return find(top)


def nested_names(tab):
    out = set()
    for c in tab.get_children():
        for s in c.get_symbols():
            out.add(s.get_name())
        out |= nested_names(c)
    return out


def wrap_closure(fn_src, free):
    """def outer(fp, fq): … def f(…) … return f"""
    body = "\n".join("    " + l for l in fn_src.splitlines())
    return "def outer(fp):\n    fq = fp + 1\n%s\n    return f\n\nf = outer(5)\n" % body


# names bound or read at positions the random programs reach only now and then
DIRECTED = [
    "def f(p):\n    import os.path\n    return p\n",
    "def f(p):\n    import os.path\n    return os.path.basename(p)\n",
    "def f(p):\n    import xml.dom as d, os.path\n    from os import path as q, sep\n    return (d, q)\n",
    # `import a.b.c` binds a, however many components follow
    "def f(p):\n    import xml.etree.ElementTree\n    return xml.etree.ElementTree.Element(p).tag\n",
    "def f(p):\n    import xml.etree.ElementTree, os.path as q, email.mime.text\n    return (xml, email, q)\n",
    "def f(xs):\n    return sorted(xs, key=lambda v, s=GLOB1: -v * s)\n",
    "def f(xs):\n    g = lambda v, s=GLOB2: v\n    return [q for q in xs if q > GLOB1]\n",
    "def f(a):\n    def inner(b=GLOB1, *, c=GLOB2):\n        return b\n    class K(Boom if a else Exception):\n        pass\n    return inner\n",
    "def f(a, *rest, k=3, **kw):\n    try:\n        R(1)\n    except Boom as e:\n        pass\n    return a\n",
    "def f(a):\n    for i, (j, k) in []:\n        pass\n    else:\n        z = 1\n    while C(1):\n        y = (w := 2)\n    with CM(2) as u:\n        pass\n    return a\n",
    "def f(a):\n    b: int\n    c: int = a\n    c += GLOB1\n    O.a = c\n    return H(1, c)\n",
    # the parameters of a nested def are its own, whatever names of the enclosing function they coincide with
    "def f(a):\n    b = a\n    def inner(b, GLOB1, c=1, *d, e=2):\n        return b\n    c = H(1, GLOB1)\n    for d in T(2, 'list', 1):\n        pass\n    return inner\n",
    # a local that is read, textually, before the statement that binds it
    "def f(xs):\n    for x in xs:\n        if x < 0:\n            return last\n        last = x\n    return None\n",
    "def f(n):\n    while C(1):\n        if C(2):\n            return helper(acc)\n        def helper(q):\n            return q\n        acc = n\n    return n\n",
    # a parameter re-bound by an import / a def / a class / a loop / a with / a handler stays a parameter
    "def f(a, math=None, sep=None):\n    if math is None:\n        import math\n    from os import sep\n    import os.path as a\n    return (a, math, sep)\n",
    "def f(a, b, c, d, e=None):\n    def a():\n        pass\n    class b:\n        pass\n    for c in []:\n        pass\n    with CM(1) as d:\n        pass\n    try:\n        R(2)\n    except Boom as e:\n        pass\n    return a\n",
]


def run(chk):
    import ptera
    from ptera.selector import SelectorError
    m2corr.ast_leg(chk, 150 if chk.tier == "quick" else 3000)
    rng = chk.rng
    chk.cov["rule"] = (
        "generated functions (C01's program space, bindings in every syntactic position incl. except / with / "
        "for / try blocks, nested def and class names, assignment expressions, imports), 30% defined inside "
        "another function and reading its variables; for every symbol of Python's symbol table of the "
        "function and for fresh names: activation of a probe on f > name, and the recorded provenance; "
        "non-trivial = the symbol is not a parameter")
    stats = {"programs": 0, "names": 0, "fresh": 0}
    n = 80 if chk.tier == "quick" else 2000
    programs = [(src_, src_, False, set(), "d%d" % k) for k, src_ in enumerate(DIRECTED)]
    for i in range(n):
        gen = pylite.Gen(rng, weights={"global": 0})
        closure = rng.random() < 0.3
        fn = gen.function(generator=rng.random() < 0.15, size=rng.randrange(4, 12))
        if closure:
            # make the body read the enclosing function's variables
            fn["body"].insert(rng.randrange(0, len(fn["body"]) + 1), ("assign", [("name", rng.choice(pylite.VARS))], "fp + fq"))
        fsrc = pylite.render(fn)
        src = wrap_closure(fsrc, True) if closure else fsrc
        programs.append((fsrc, src, closure, pylite.stmt_kinds(fn), i))
    for fsrc, src, closure, kinds, i in programs:
        full = pylite.HELPERS + "\n" + src
        tab = function_table(full, "f")
        if tab is None:
            continue
        inner = nested_names(tab)
        mod = pyprog.make_module(full, "verif_c10")
        f = mod.f
        stats["programs"] += 1
        for kd in kinds:
            chk.dist(kd)
        if isinstance(i, str):
            chk.dist("directed")
        for sym in tab.get_symbols():
            name = sym.get_name()
            if sym.is_parameter():
                want = "argument"
            elif sym.is_free():
                want = "closure"
            elif sym.is_local() or (sym.is_assigned() and not sym.is_global()):
                want = "body"
            elif sym.is_global() and sym.is_referenced() and not sym.is_assigned():
                want = "external"
            else:
                continue
            stats["names"] += 1
            chk.count((fsrc, closure, name), nontrivial=want != "argument")
            chk.dist("provenance:" + want)
            sel = "f > %s" % name
            try:
                p = ptera.probing(sel, env={"f": f})
                p.__enter__()
                try:
                    info = f.__ptera_info__.get(name)
                    got = None if info is None else info["provenance"]
                finally:
                    p.__exit__(None, None, None)
            except Exception as e:
                chk.violation("oracle", "f > %s (%s per Python's symbol table) is refused: %s: %s" % (
                    name, want, type(e).__name__, str(e)[:140]), {"source": src, "name": name, "symtable": want})
                continue
            if got != want:
                chk.violation("oracle", "f > %s: Python scopes it as %s, ptera records provenance %r" % (name, want, got),
                              {"source": src, "name": name, "symtable": want, "ptera": got})
        # names occurring nowhere in f
        present = {s.get_name() for s in tab.get_symbols()} | inner
        for fresh in ("zz_nowhere", "fresh%s" % i, "A1"):
            if fresh in present:
                continue
            stats["fresh"] += 1
            chk.count((fsrc, closure, fresh), nontrivial=True)
            code_before = f.__code__
            try:
                p = ptera.probing("f > %s" % fresh, env={"f": f})
                p.__enter__()
                p.__exit__(None, None, None)
                chk.violation("oracle", "f > %s was accepted although %s occurs nowhere in f" % (fresh, fresh),
                              {"source": src, "name": fresh})
            except SelectorError:
                if f.__code__ is not code_before:
                    chk.violation("oracle", "the refused activation of f > %s left f instrumented" % fresh,
                                  {"source": src, "name": fresh})
            except Exception as e:
                chk.violation("oracle", "f > %s refused with %s instead of a selector error" % (fresh, type(e).__name__),
                              {"source": src, "name": fresh})
        pyprog.drop_module(mod)
        if isinstance(i, int) and i % 30 == 0:
            chk.sample({"source": src, "symbols": [s.get_name() for s in tab.get_symbols()]})
    # documented refusals
    mod = pyprog.make_module("def f(x):\n    v = x\n    return v\nnotfn = 3\nclass K:\n    pass\n", "verif_c10_b")
    cases = [("nofunc > v", SelectorError, "function name that cannot be resolved"),
             ("f > #nometa", SelectorError, "undocumented meta-variable"),
             ("notfn > v", TypeError, "object that is not a function"),
             ("f(zz) > v", SelectorError, "context variable that occurs nowhere"),
             ("K.nope > v", SelectorError, "attribute path whose last component cannot be resolved"),
             ("f > K.nope > v", SelectorError, "attribute path that cannot be resolved, inside a call path"),
             ("K.nope.deeper > v", SelectorError, "attribute path that cannot be resolved")]
    # names that only LOOK like the documented meta-variables
    for h in ("#enter", "#exit", "#value", "#error", "#yield", "#receive"):
        for suffix in ("s", "_", "2", "ed", "_v"):
            cases.append(("f > %s%s" % (h, suffix), SelectorError, "undocumented meta-variable with a documented prefix"))
    cases += [("f > #loop", SelectorError, "loop marker without a variable"),
              ("f > #endloop", SelectorError, "loop marker without a variable"),
              ("f(#entered) > v", SelectorError, "undocumented meta-variable as context")]
    for sel, cls, what in cases:
        chk.count(("refusal", sel))
        try:
            p = ptera.probing(sel, env=mod.__dict__)
            p.__enter__()
            p.__exit__(None, None, None)
            chk.violation("oracle", "%s (%s) was accepted" % (sel, what), {"source": "f(x): v = x", "name": sel})
        except cls:
            pass
        except Exception as e:
            chk.violation("oracle", "%s (%s) refused with %s, documented is %s" % (sel, what, type(e).__name__, cls.__name__),
                          {"source": "f(x): v = x", "name": sel})
    pyprog.drop_module(mod)
    chk.cov["oracle"]["symtable"] = stats
    chk.assumptions += ["Python's symtable module is the oracle for scoping; names that occur only inside nested scopes (lambda parameters, nested function locals) are not tested either way"]


def replay(chk, path):
    data = json.load(open(path))
    for v in data.get("violations", []):
        print("replay:", v["what"][:300]); print(v["replay"].get("source", "")[:800])
    return 1 if data.get("violations") else 0
