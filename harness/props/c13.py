"""C13 — method selectors bind to the right function and the right receiver.

proof leg      Props/C13.lean (receiver filter by identity, class selectors unfiltered, _dig, F24 witness)
correspondence runtime model M3 vs probing(...) on populations of instances and call sequences
oracle         events (value, id(receiver)) per call vs "receiver is the probed object"
"""
import json

import core
import pyprog
import treegen
import treecorr

SRC = '''
import functools
G = 100

def deco(fn):
    @functools.wraps(fn)
    def wrapper(*args, **kw):
        return fn(*args, **kw)
    return wrapper

class P:
    def __init__(self, k):
        self.k = k
        self.v = k
    def meth(self, x):
        v = x + self.k
        return v
    def other(this, x):
        v = x * 2
        return v
    def glob(self, x):
        w = G + x
        return w
    @deco
    def wrapped(self, x):
        v = x - self.k
        return v
    @property
    def prop(self):
        v = self.k * 10
        return v
    @property
    @deco
    def dprop(self):
        v = self.k * 100
        return v
    def relay(self, other, x):
        return other.meth(x)
    @deco
    @deco
    def wrapped2(self, x):
        v = x - 2 * self.k
        return v

class E(P):
    """value equality, hashable"""
    def __eq__(self, o):
        return isinstance(o, E) and o.k == self.k
    def __hash__(self):
        return hash(self.k)

class U(P):
    """value equality, not hashable"""
    def __eq__(self, o):
        return isinstance(o, U) and o.k == self.k

class S(P):
    """inherits the methods"""

class Z(P):
    """an instance that is false"""
    def __bool__(self):
        return False

class L(P):
    """an empty container"""
    def __len__(self):
        return 0

class Holder:
    pass

def caller(o, x):
    return o.meth(x)

def meth(x):
    v = x + 1000
    return v
'''

# method name -> (receiver parameter name, externals read, body variable, value function, function index)
METHODS = {
    "meth": ("self", [], "v", lambda o, x: x + o.k),
    "other": ("this", [], "v", lambda o, x: x * 2),
    "glob": ("self", ["G"], "w", lambda o, x: 100 + x),
    "wrapped": ("self", [], "v", lambda o, x: x - o.k),
}


def activation(fi, mname, obj, x):
    recv, ext, var, fn = METHODS[mname]
    val = fn(obj, x)
    items = [{"name": "#enter", "cat": ["enter"], "value": {"v": 1, "oid": 0}, "overridable": False}]
    for e in ext:
        items.append({"name": e, "cat": None, "value": {"v": 100, "oid": 0}})
    items.append({"name": recv, "cat": None, "value": treegen.val_json(obj)})
    items.append({"name": "x", "cat": None, "value": {"v": x, "oid": 0}})
    items.append({"name": var, "cat": None, "value": {"v": val, "oid": 0}})
    items.append({"name": "#value", "cat": None, "value": {"v": val, "oid": 0}})
    items.append({"name": "#exit", "cat": ["exit"], "value": {"v": 1, "oid": 0}, "overridable": False})
    return {"fn": fi, "items": items}, val


def run(chk):
    import ptera
    from ptera import Immediate, BaseOverlay
    from ptera.selector import select
    from ptera.overlay import autotool
    rng = chk.rng
    drv = chk.open_driver()
    chk.cov["rule"] = (
        "populations of 3-6 instances drawn from a plain class, a class with value equality (hashable), a "
        "class with value equality and no __hash__, and a subclass inheriting the methods, with colliding "
        "field values so that distinct instances compare equal; selectors through the class, through one "
        "object, through a dotted attribute path, through a functools.wraps decorator; receiver parameter "
        "called `self` or `this`; random call sequences over the population incl. a plain function that "
        "shares the method's name; non-trivial = the population has another instance equal to or of the "
        "same class as the probed one and the sequence calls both")
    N = 150 if chk.tier == "quick" else 2500
    stats = {"cases": 0, "events": 0, "disagreements": 0, "known_F24": 0}
    mod = pyprog.make_module(SRC, "verif_c13")
    P = mod.P
    funs = [P.meth, P.other, P.glob, P.wrapped.__wrapped__]
    fidx = {"meth": 0, "other": 1, "glob": 2, "wrapped": 3}
    infos = None
    for case in range(N):
        pop = []
        for _ in range(rng.randrange(3, 7)):
            cls = rng.choice([mod.P, mod.E, mod.E, mod.U, mod.U, mod.S])
            pop.append(cls(rng.randrange(0, 3)))
        holder = mod.Holder()
        holder.obj = pop[0]
        holder.inner = mod.Holder()
        holder.inner.obj = pop[1]
        env = dict(mod.__dict__)
        env.update({"o%d" % i: o for i, o in enumerate(pop)})
        env["holder"] = holder
        mname = rng.choice(list(METHODS))
        recvname, ext, var, _ = METHODS[mname]
        kind = rng.choice(["class", "object", "object", "path", "subclass", "global"])
        probed = None
        if kind == "class":
            sel = "P.%s > %s" % (mname, var)
        elif kind == "object":
            i = rng.randrange(len(pop))
            probed = pop[i]
            form = rng.choice(["o%d.%s > %s", "o%d.%s(x) > %s", "o%d.%s(RECV) > %s", "o%d.%s(RECV as who, x) > %s"])
            sel = (form % (i, mname, var)).replace("RECV", recvname)
        elif kind == "path":
            probed, sel = rng.choice([(pop[0], "holder.obj.%s > %s" % (mname, var)),
                                      (pop[1], "holder.inner.obj.%s > %s" % (mname, var))])
        elif kind == "subclass":
            sel = "S.%s > %s" % (mname, var)        # S inherits: the same function object as P's
        else:
            i = rng.randrange(len(pop))
            probed = pop[i]
            mname, var = "glob", "G"
            recvname = "self"
            sel = "o%d.glob > G" % i
        calls = []
        for _ in range(rng.randrange(2, 9)):
            if rng.random() < 0.15:
                calls.append(("plain", None, rng.randrange(0, 9)))
            else:
                m = mname if rng.random() < 0.8 else rng.choice(list(METHODS))
                calls.append((m, rng.randrange(len(pop)), rng.randrange(0, 9)))
        # ---- implementation
        events = []
        try:
            ssel = select(sel, env=env)
        except Exception as e:
            chk.violation("oracle", "select(%r) raised %s: %s" % (sel, type(e).__name__, e),
                          {"selector": sel, "population": [type(o).__name__ + str(o.k) for o in pop]})
            continue

        def trig(args):
            events.append({"ev": "trigger", "h": 0, "args": treegen.snap_json(args)})

        rule = Immediate(ssel, trigger=trig)
        autotool(ssel)
        rets = []
        try:
            with BaseOverlay(rule):
                for (m, i, x) in calls:
                    rets.append(mod.meth(x) if m == "plain" else getattr(pop[i], m)(x))
        finally:
            autotool(ssel, undo=True)
        # ---- model
        trees = []
        want_rets = []
        for (m, i, x) in calls:
            if m == "plain":
                want_rets.append(x + 1000)
                continue
            t, val = activation(fidx[m], m, pop[i], x)
            trees.append(t)
            want_rets.append(val)
        if infos is None or True:
            infos = []
            for f in funs:
                info = getattr(f, "__ptera_info__", None) or ptera.transform(f, proceed=ptera.overlay.proceed).__ptera_info__
                infos.append({"vars": [[k, treegen.cat_json(v["annotation"])] for k, v in info.items()], "ret": None})
        hj = [{"kind": "immediate", "sel": treegen.sel_json(ssel, funs), "trigger": True, "intercept": None,
               "close": False}]
        m_out = drv.ask({"op": "handlers", "handlers": hj, "infos": infos, "trees": trees})
        stats["cases"] += 1
        stats["events"] += len(events)
        others = [o for o in pop if probed is not None and o is not probed and (o == probed or type(o) is type(probed))]
        chk.count((sel, tuple((type(o).__name__, o.k) for o in pop), tuple(calls)),
                  nontrivial=probed is None or bool(others))
        chk.dist(kind)
        if treecorr.canon(m_out["events"]) != treecorr.canon(events):
            stats["disagreements"] += 1
            chk.violation("correspondence", "model M3 and implementation differ on %r" % sel,
                          {"selector": sel, "calls": calls, "impl": events[:6], "model": m_out["events"][:6]})
        # ---- oracle: the property's own words
        cap = var if kind != "global" else "G"
        got = [(e["args"][cap]["values"][0]["v"],
                e["args"][recvname]["values"][0]["oid"] if recvname in e["args"] else
                (e["args"]["who"]["values"][0]["oid"] if "who" in e["args"] else None)) for e in events]
        want = []
        for (m, i, x) in calls:
            if m != mname:
                continue
            o = pop[i]
            if kind in ("class", "subclass") or o is probed:
                val = 100 if kind == "global" else METHODS[m][3](o, x)
                want.append((val, (id(o) % 1000003) if probed is not None else None))
        if rets != want_rets:
            chk.violation("oracle", "calls returned %r under the probe, %r without" % (rets, want_rets),
                          {"selector": sel, "calls": calls})
        if got != want:
            extra_only = kind == "global" and [g for g in got if g[1] is None or True] and len(got) >= len(want)
            if kind == "global" and chk.is_known("F24") and len(got) == sum(1 for (m, i, x) in calls if m == mname):
                chk.known_finding("F24", "%s (a global read by the method, fetched before the receiver parameter "
                                  "is captured) fires for every receiver" % sel)
                stats["known_F24"] += 1
            else:
                chk.violation("oracle", "selector %r observed %r, calls on the probed receiver give %r" % (
                    sel, got, want),
                    {"selector": sel, "population": [type(o).__name__ + str(o.k) for o in pop],
                     "probed": None if probed is None else pop.index(probed), "calls": calls})
        if stats["cases"] % 40 == 1:
            chk.sample({"selector": sel, "population": [type(o).__name__ + str(o.k) for o in pop], "calls": calls,
                        "events": len(events)})
    # the meta events of the method (oracle only): #enter is delivered before the receiver parameter is captured
    for hv in ("#enter", "#exit", "#value"):
        for form in ("o0.meth > %s", "o1.meth(x) > %s"):
            pop = [mod.P(1), mod.P(1), mod.U(2)]
            env = dict(mod.__dict__)
            env.update({"o%d" % i: o for i, o in enumerate(pop)})
            sel = form % hv
            probed = pop[int(sel[1])]
            with ptera.probing(sel, env=env) as pr:
                evs = pr.accum()
                for o in (pop[0], pop[1], pop[0], pop[1]):
                    o.meth(3)
            chk.count(("meta", sel), nontrivial=True)
            chk.dist("meta-event focus")
            if len(evs) == 2:
                continue
            if hv == "#enter" and len(evs) == 4 and chk.is_known("F24b"):
                chk.known_finding("F24b", "%s (delivered before the receiver parameter is captured) fires for every "
                                  "receiver" % sel)
                stats["known_F24"] += 1
            else:
                chk.violation("oracle", "selector %r fired %d times for 2 calls on the probed receiver and 2 on another" % (
                    sel, len(evs)), {"selector": sel, "events": treegen.snap_json(list(evs))})
    # the object selector below another function in the call path, and receivers that are false / empty
    for cls in (mod.P, mod.E, mod.Z, mod.L):
        pop = [cls(1), cls(1), cls(2)]
        env = dict(mod.__dict__)
        env.update({"o%d" % i: o for i, o in enumerate(pop)})
        for sel, run_calls, want in (
                ("caller > o1.meth > v", lambda: [mod.caller(pop[0], 5), mod.caller(pop[1], 6), mod.caller(pop[2], 7), pop[1].meth(8)], [7]),
                ("o1.meth > v", lambda: [pop[0].meth(5), pop[1].meth(6), pop[2].meth(7)], [7]),
                ("caller(x) > o2.meth > v", lambda: [mod.caller(pop[2], 1), mod.caller(pop[0], 1)], [3])):
            try:
                with ptera.probing(sel, env=env) as pr:
                    evs = pr.accum()
                    run_calls()
                got = [e.get("v") for e in evs]
                recv = [e.get("self") for e in evs]
            except Exception as e:
                got, recv = "%s: %s" % (type(e).__name__, e), []
            probed = pop[int(sel.split(".meth")[0][-1])]
            chk.count(("position/falsy", cls.__name__, sel), nontrivial=True)
            chk.dist("object selector: " + ("inside a call path" if sel.startswith("caller") else "falsy receiver" if cls in (mod.Z, mod.L) else "plain"))
            if got != want or any(r is not probed for r in recv):
                chk.violation("oracle", "%s with instances of %s: observed v = %r (receivers reported: %d, all the probed "
                              "object: %s), expected %r from the probed receiver only" % (
                                  sel, cls.__name__, got, len(recv), all(r is probed for r in recv), want),
                              {"selector": sel, "class": cls.__name__})
    # two object selectors in one call path: each level has its own receiver
    pop = [mod.P(1), mod.P(2), mod.P(3)]
    env = dict(mod.__dict__)
    env.update({"o%d" % i: o for i, o in enumerate(pop)})
    try:
        with ptera.probing("o0.relay > o1.meth > v", env=env) as pr:
            evs = pr.accum()
            pop[0].relay(pop[1], 5)      # the only call whose path is o0.relay > o1.meth
            pop[0].relay(pop[2], 5)
            pop[2].relay(pop[1], 5)
            pop[1].meth(5)
        got = [e.get("v") for e in evs]
    except Exception as e:
        got = "%s: %s" % (type(e).__name__, e)
    chk.count(("nested-objects",), nontrivial=True)
    chk.dist("two object selectors in one path")
    if got != [7]:
        if got == [] and chk.is_known("F34"):
            chk.known_finding("F34", "o0.relay > o1.meth > v never fires: both levels capture their receiver under the "
                              "same name and the outer one shadows the inner one")
            stats["known_F24"] += 1
        else:
            chk.violation("oracle", "o0.relay > o1.meth > v observed v = %r for calls of which exactly one follows the "
                          "path (expected [7])" % (got,), {"selector": "o0.relay > o1.meth > v"})
    # property / decorator access paths resolve to the underlying function
    with ptera.probing("P.prop > v", env=mod.__dict__).values() as evs:
        a = mod.P(3).prop
    chk.count(("prop",))
    if list(evs) != [{"v": 30}] or a != 30:
        chk.violation("oracle", "P.prop > v through a property gave %r" % list(evs), {"selector": "P.prop > v"})
    # … combined: a property over a decorated getter, a doubly decorated method, the same through one object
    for sel, call, want, ret in (("P.dprop > v", lambda: mod.P(3).dprop, [{"v": 300}], 300),
                                 ("P.wrapped2 > v", lambda: mod.P(3).wrapped2(10), [{"v": 4}], 4)):
        try:
            with ptera.probing(sel, env=mod.__dict__).values() as evs:
                a = call()
            got = list(evs)
        except Exception as e:
            got, a = "%s: %s" % (type(e).__name__, e), None
        chk.count(("dig", sel), nontrivial=True)
        chk.dist("access path: decorator chain")
        if got != want or a != ret:
            chk.violation("oracle", "%s (decorators / property around the function) gave %r and returned %r, "
                          "expected %r and %r" % (sel, got, a, want, ret), {"selector": sel})
    chk.cov["correspondence"]["populations"] = stats
    pyprog.drop_module(mod)


def replay(chk, path):
    data = json.load(open(path))
    for v in data.get("violations", []):
        print("replay:", v["what"][:200], json.dumps(v["replay"])[:300])
    return 1 if data.get("violations") else 0
