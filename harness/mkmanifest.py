"""Regenerate MANIFEST.json from the table below (keeps it schema-valid at all times)."""
import json
import os

VERIF = os.path.dirname(os.path.dirname(os.path.abspath(__file__)))
ALL = ["C%02d" % i for i in range(1, 19)]

LEVEL_NOTE = ("Trusted: Lean 4.33 kernel; axioms per theorem audited each run (subset of propext, "
              "Classical.choice, Quot.sound; no native_decide/sorry); harness/extract.py for the generated "
              "definitions; the correspondence harness and generators for hand-written models (agreement is "
              "shown on the explored inputs only). ")

CLAIMS = {
    "C12": dict(
        technique="Lean 4 theorems over definitions translated from ptera/tools.py on every run + model/implementation correspondence + reference-predicate oracle",
        text="Machine-checked proof (Lean 4) that the stock predicates, as translated from tools.py on this run, "
             "mean what the property states for ALL integers (every: start<=v<end and n | v-start for n!=0, floored "
             "modulo; between; lt/gt/lte/gte). The translator is validated against ptera.tools on an exhaustively "
             "enumerated integer box; the end-to-end filter (constrained selector == unconstrained stream filtered; "
             "override applied under the same condition) is checked on the implementation against the stated predicate. "
             "Over the runtime model M3 it is proved that the predicates of the model are the translated tools.py "
             "definitions, that the handler wrapper tests exactly `every present constrained capture has only "
             "satisfying values` (an uncaptured constrained variable imposes nothing) and that close records pass the "
             "same filter; M3 is compared with the implementation on call trees with conditions at several stack levels.",
        design_ref="DESIGN.md section 5, C12",
        note="every(0) divides by zero (outside the stated domain, theorem C12_every_zero_raises); throttle is stateful: "
             "correspondence only. The end-to-end filter theorem is over the handler model M3.",
    ),
}

CLAIMS["C18"] = dict(
    technique="Lean 4 totality theorems for the lexer/parser/evaluator model (parser loop for every operator table) + exhaustive short-string correspondence + exception-class oracle",
    text="Machine-checked proof that the model of ptera.selector.parse/_select (hand-written lexer matchers for the three "
         "regular expressions, the operator-precedence loop, every registered evaluation action) can only fail with a "
         "syntax or selector error: the lexer consumes >=1 character per token for every Unicode classification, the "
         "parser loop terminates and never pops an empty stack for EVERY operator table and token list, no action "
         "fails internally for ANY parse tree. The operator table, lexer definitions and action registry are regenerated "
         "from the source each run; model and implementation are compared on every string of <=3 (quick) / <=4 (thorough) "
         "tokens over a 32-token alphabet plus random/Unicode/mutated strings (tokens, parse tree, compiled selector, "
         "error class and offset); the implementation's exception class is checked for parse, select(env) and probe "
         "creation/activation, including the refusals the property lists, each under every probe_type; directed strings "
         "beyond the exhaustive length (bracketed operands, unimportable references, keyword arguments with non-name keys).",
    design_ref="DESIGN.md section 5, C18",
    note="Modelled, not verified: Python's re engine (the three regexes are re-implemented by hand and validated by the "
         "correspondence), Unicode \\s/\\w classification (a parameter of the model), environment resolution in select() "
         "(error classes checked on the implementation only).",
)

CLAIMS["C15"] = dict(
    technique="Lean 4 evaluator laws for all operand trees + documented equations proved for arbitrary word operands over the regenerated operator table + interning theorem; generated-grammar correspondence and identity oracle",
    text="Machine-checked proof that (1) each documented equivalence holds in the evaluator model for ALL operand parse "
         "trees (grouping, f > x / f(!x), f(a) > x / f(a, !x), f() as r / f(!#value as r), $x / * as x, f(b)=c / "
         "f(b, #value=c)); (2) for every documented equation both spellings, as token lists whose word operands have "
         "arbitrary text, compile (parser over the operator table regenerated from the source + evaluator) to the same "
         "selector; (3) interning returns the same object iff the fields are equal, given a reflexive key equality, "
         "with a witness that non-reflexive equality breaks it. The model is compared with ptera.selector.parse on "
         "generated grammar terms in every style/whitespace variant, and the implementation is checked for "
         "parse(lhs) is parse(rhs), identity<->structure and the focus element.",
    design_ref="DESIGN.md section 5, C15",
    note="The full statement over compound operands at parser level (operand-absorption lemma of the precedence loop) is "
         "not proved: compound operands are covered by the evaluator laws plus bounded generated correspondence. "
         "Re-spacing is checked by correspondence and oracle only (the lexer model is hand-written; Python's re is modelled).",
)

CLAIMS["C03"] = dict(
    technique="Lean 4 invariant of the pending collection (embedding count, any chain length / stack depth) transferred to the model of HandlerCollection.proceed + call-tree correspondence + independent embedding reference",
    text="Machine-checked proof, for chain selectors of any length and stacks of any depth (recursion, gaps), that the "
         "selector component of the model of HandlerCollection.proceed is independent of the accumulators, that each "
         "pending suffix occurs once per embedding of the matched prefix into the live stack, and hence that the number "
         "of pairs ready to fire at a binding equals the number of embeddings of the path ending at the binding "
         "activation (0 if none). The hand-written runtime model M3 (proceed, fork, register, interact, build, "
         "check_captures) is compared event-for-event (order included) with BaseOverlay(Immediate) on generated "
         "families of mutually calling tooled functions, and the implementation's events are compared with an "
         "independent reference that recomputes embeddings and payloads from the call tree.",
    design_ref="DESIGN.md section 5, C03",
    note="The payload half of the property (latest values from exactly the matched activations; sibling values only "
         "from calls under the matched activation) is not a Lean theorem: it is covered by the model correspondence "
         "and the reference oracle. The model M3 is hand-written.",
)
CLAIMS["C07"] = dict(
    technique="Lean 4 theorems on the Total accumulator model (close scheduling, completeness filter, append-only log) + kernel-evaluated counterexample for the known finding + call-tree correspondence + independent record reference",
    text="Machine-checked proof over the runtime model M3 that a record is scheduled for an activation only through "
         "the user's template accumulator (the outermost level), that a delivered record always carries exactly the "
         "selector's capture names (incomplete calls deliver nothing) and that Total logging appends in order; the full "
         "statement (each value once) is proved FALSE of the model by a kernel-evaluated witness (finding F17) which the "
         "check replays on the implementation. Model and implementation are compared on generated call trees with "
         "focus-free and forced-total selectors, raising calls and recursive outermost calls; records are compared "
         "with an independent reference computed from the call tree; a focused selector in total mode over calls some of "
         "which raise before a captured variable is bound: one record per complete call, wherever the incomplete ones fall.",
    design_ref="DESIGN.md section 5, C07",
    note="Known finding F17 (value recorded once per embedding) is listed in known_findings.json; the oracle accepts "
         "exactly that deviation and nothing else. Forced-total focused selectors are compared with the model only.",
)

CLAIMS["C11"] = dict(
    technique="Lean 4 iff-characterisations of match_tag/check_element, tag-set algebra, exactness of the interaction working set and function-position tags over model M3 + exhaustive unit correspondence + call-tree correspondence + annotation-table oracle",
    text="Machine-checked proof over the runtime model M3 that a tag-restricted generic capture applies to a binding iff "
         "the binding's annotation is that tag or a set containing it (named captures additionally require the name; "
         "unrestricted captures match everything), that matching depends only on the member set of a tag set (merge is "
         "commutative, associative, idempotent), that the working set of an interaction is exactly the registered "
         "elements that apply to this binding, and that a tag on the function position requires the return annotation to "
         "carry it. match_tag/check_element are compared with the model on the whole 3-tag domain; M3 is compared with "
         "the implementation on call trees whose bindings carry random tag sets; the raw stream (real names, values) is "
         "compared with the annotation table of the generated program, as are the instrumented sites of the rewritten "
         "function and the string/object annotation forms. A variable annotated at several places with tags, tag sets and tag-free annotations in every order: each binding is captured iff its own annotation carries the tag (finding F41).",
    design_ref="DESIGN.md section 5, C11",
    note="should_instrument (which sites are rewritten) is checked on the implementation by inspecting the rewritten "
         "AST, not proved. Globals read by the body are reported by an unrestricted generic capture as external "
         "variables (documented behaviour, excluded from the oracle).",
)

CLAIMS["C13"] = dict(
    technique="Lean 4 theorems on the receiver constraint over model M3 (identity filter, class selectors unfiltered, _dig) with kernel-evaluated runs + population correspondence + receiver-identity oracle",
    text="Machine-checked proof over the runtime model M3 that, once the receiver parameter is captured, a handler of a "
         "selector built by _resolve for a bound method runs iff the captured receiver IS the probed object (value "
         "equality is irrelevant, the parameter name is irrelevant), that a selector through the class is unfiltered, "
         "that _dig always reaches a function or a tooled wrapper; the full statement fails for a focus bound before "
         "the receiver is captured (finding F24, kernel-evaluated witness, replayed on the implementation). Model and "
         "implementation are compared on populations of plain / value-equal / unhashable / subclass instances with "
         "colliding values, dotted paths, decorated methods and properties; events (value, id(receiver)) are compared "
         "with `receiver is the probed object`.",
    design_ref="DESIGN.md section 5, C13",
    note="Known finding F24 (external focus variable fires for every receiver) is accepted exactly for selectors whose "
         "focus is a global read by the method. Symbol resolution through attributes (dict_resolver) is exercised on "
         "the implementation, not modelled.",
)

CLAIMS["C05"] = dict(
    technique="Lean 4 invariant of the life-cycle state machine over every operation list (induction on histories) + step-by-step history correspondence + history-derived oracle",
    text="Machine-checked proof, for EVERY list of operations (activations, deactivations in any order, repeated and "
         "refused activations, attachments, calls) of the life-cycle model M5, that the context holds exactly the active "
         "probes once each in activation order and each function's instrument_count and capture counters are the sums of "
         "what the active probes pushed; hence whatever an active probe captures is instrumented by the installed code, a "
         "call delivers nothing to an inactive probe, a refused activation changes no counter, and whenever no probe is "
         "active every function runs its original code with all counters zero and no handler installed. The model is "
         "compared with the implementation after every step of generated histories (outputs, counters, code identity, "
         "context handlers, completions); delivery and quiescence are also checked against expectations computed from "
         "the history itself.",
    design_ref="DESIGN.md section 5, C05",
    note="The model is hand-written (push/pop/get, autotool with undo, BaseOverlay enter/exit as they are after the fix "
         "commits F9-F11, F21). Events are delivered through the runtime of C03 (not re-modelled here: one event per "
         "binding per focused capture).",
)
CLAIMS["C17"] = dict(
    technique="Lean 4 theorems on the probe flags and the observer list over every history (guard monotone, completion at most once, delivery to attached stages of active probes) + history correspondence + reduction oracle",
    text="Machine-checked proof over the life-cycle model M5, for every history, that a second activation is refused and "
         "changes nothing and the guard can never be re-armed, that leaving (normally, by exception, explicitly) completes "
         "exactly the stages attached at that moment, clears them and can happen at most once per probe, and that an event "
         "reaches exactly the stages attached at that moment of a probe whose handlers are installed. Histories with "
         "reducing and non-reducing stages (accum, count, sum, min, max, last) built before, during and after the active "
         "period are run on the implementation: every stage's output is compared with the reduction of exactly the events "
         "delivered during the active period, and with the model's delivery/completion record. The exit hook "
         "(_terminate_global_probes) with one to four global probes left active — called in-process and through a real "
         "interpreter exit of a child process — : every reduction publishes its one result. Subscribers that raise when the stream completes (finding F40): "
         "the deactivation raises exactly then, completes every other stage once and takes the probe down.",
    design_ref="DESIGN.md section 5, C17",
    note="giving.SourceProxy and the reactivex operators are external: modelled (observer list, complete-then-clear-"
         "then-_exit) and validated by correspondence, not verified. The value sum/min/max/last of an empty stream "
         "hand to an error handler (a reactivex error) is not checked.",
)

CLAIMS["C09"] = dict(
    technique="Lean 4 theorems on the generator-context state machine over every history (driver context invariant under next/close/drop, overlays exact) + step-by-step history correspondence + context-identity oracle",
    text="Machine-checked proof over the generator-context model (proceed enter/suspend/resume/exit, overlay enter/exit), "
         "for every history of {enter/leave overlay, next, close, drop, driver call} over any number of generators in any "
         "order, that advancing, exhausting, closing or dropping a generator leaves the driver's context exactly as it "
         "was, that the driver never runs inside a generator, that the installed overlays are exactly those entered and "
         "not yet left (an ended overlay is never re-installed), and that a generator body runs under the collection "
         "derived at its entry. Model and implementation are compared after every step of generated histories through "
         "what fires for driver calls and generator segments (g > a and genK > g > a per overlay, for ten kinds of "
         "generators: plain yield; yield as the value of a binding, of a chained, annotated, walrus and augmented "
         "assignment to a captured variable, inside an assignment target, inside the default of a nested def; yield "
         "from a generator and from a list; a generator that swallows GeneratorExit); HandlerCollection.current is compared before/after every generator operation.",
    design_ref="DESIGN.md section 5, C09",
    note="The context value is abstracted to (installed overlays, generator activations the collection was derived "
         "through). gen.throw() is outside the histories explored (not an operation of the property). Holds only after "
         "the fix commits a5e9710, 9f3c432, 1267bb6 (F35: a generator suspended inside `yield from` leaked its "
         "context) and the F37 repair (yields inside assignment targets and def / class headers).",
)

CLAIMS["C08"] = dict(
    technique="Lean 4: lock discipline of the step skeleton GENERATED from the source (decide), exhaustive kernel-checked exploration of all schedules of two threads over the generated programs, atomic-level invariant for any number of threads; deterministic real-thread scheduler for correspondence and replay",
    text="PARTIAL. The atomic step skeleton of _tooler/_untooler (push/pop/_apply/get inlined) is regenerated from the "
         "source on every run. Lean checks that every access to the shared counters and code object happens under the "
         "lock, computes in the kernel the set of states reachable by two threads (activate / call / deactivate each, "
         "distinct, identical and overlapping captured variables) under EVERY schedule at source-line granularity and "
         "proves it closed and good, hence every schedule keeps each thread's variables instrumented during its call and "
         "ends on the original code with zero counters; for any number of threads the same holds when activation, "
         "deactivation and call entry are atomic (invariant of the life-cycle model). Without the lock operations the "
         "same programs reach a bad state (witness). Bystanders — a thread whose own probe is on another function and "
         "that calls the shared function while a probing thread activates / deactivates — are part of the model: their "
         "call reads the code object, then the variable table (the kind of lookup is generated from fits_selector); "
         "under every schedule of one probing thread and one bystander no call raises (C08_bystander_one_prober, "
         "C08_bystander_all_schedules; larger configurations by the compiled model). Real threads are driven by a sys.settrace scheduler through "
         "sampled (quick) or all (thorough) two-preemption schedules and random ones; the shared state after every "
         "scheduled step is compared with the model and each thread's events/return value with its sequential run. If "
         "the discipline breaks, the compiled model searches a bad schedule and the scheduler replays it on real threads. "
         "Model-free forced interleavings (stops before every source line of the tooling functions) are run as well: "
         "among them a thread that probes, calls and leaves twice while the other is active and — always when the "
         "skeleton cannot be extracted — every stop position of one thread against a complete run of the other.",
    design_ref="DESIGN.md section 5, C08",
    note="Assumptions (not verified): atomicity unit = one source line under CPython 3.12's GIL, ContextVar values are "
         "per thread, single dict/Counter operations are atomic; free-threaded builds, signal handlers and memory-model "
         "effects below that granularity are outside the model. Three threads at line level are explored by the "
         "compiled model in the thorough tier (a test, not a kernel proof).",
)

CLAIMS["C14"] = dict(
    technique="Lean 4 invariant of the code-registry model over every history (induction) + per-step resolution correspondence on generated modules + identity oracle",
    text="Machine-checked proof over the registry model M7 (paths, current code per path, back-references, installed "
         "code per function; install = optional re-registration of the original code + update_cache_entry + code swap), "
         "for every history of installs and lookups over any number of functions, that each function's path points at the "
         "code installed on it and no code is registered under another function's path, hence the reference of every "
         "function resolves to that very function before, during and after any number of probes; a witness shows that the "
         "pollution caused by executing the rewritten definition breaks it. On generated modules (module-level functions, "
         "methods of nested classes sharing their names, a nested function, a decorated function) histories of "
         "activate by name / by reference, deactivate in any order, call, resolve are run; after every step the reference "
         "of EVERY function is resolved on the implementation and in the model, and probes by reference must deliver the "
         "events of their own function. The universe has plain, nested, method, inner-class and functools.wraps-decorated "
         "(one and two levels) functions.",
    design_ref="DESIGN.md section 5, C14",
    note="codefind is external (modelled, validated by correspondence). Known finding F25: the function object returned "
         "by the non in-place `tooled` decorator is not what its reference resolves to. Holds only after fix commit 9c6aa53.",
)


M2 = ("Model M2: the PyLite fragment of Python's ast, ptera's rewriter as a function on it (`instrument`, hand-written "
      "after ptera/transform.py), an executable semantics of the fragment over an abstract host, and the *reference "
      "semantics* (plain Python in which the bindings of captured names consult the handler). ")
TIE = ("Ties, all run on every check: (1) AST correspondence - for generated functions x capture sets the tree real "
       "transform() hands to compile() is compared node by node with the model's `instrument`, and ptera's provenance "
       "table with the model's `collect`; (2) executable correspondence - the model interpreter against CPython on the "
       "untouched program (result/exception, ordered helper log, object state, yielded sequence), the rewritten program "
       "against the reference semantics inside the model (the executable statement of the theorem), and the reference "
       "semantics' events for a focus variable against a real ptera probe. ")
THM = ("Main theorem `instrument_refines` (Lean, by induction over the syntax, loops by induction on the bound / the "
       "items): for EVERY function of the core fragment (names, tuple/nested/starred targets, attribute and subscript "
       "stores incl. element assignment through a variable with constant or computed index, chained assignment, "
       "augmented and annotated assignment, declarations, walrus, yield, if/while/for/try/with, nested "
       "def/class/import, return/raise/break/continue, closures: reads of variables of enclosing functions, which the "
       "rewritten code shows to the handler at entry without letting it override them), every capture set, every host "
       "and handler, every input, "
       "generator script and loop bound, the rewritten function ends the same way as the reference semantics with the "
       "same world (ordered side effects), handler state (events) and generator traffic. ")
NOTE_M2 = ("Modelled, not verified: Python's semantics of the fragment (validated against CPython by the executable "
           "correspondence on generated programs with opaque logged helpers), annotations as static values, globals "
           "immutable during the call (the documented exception), the handler as an arbitrary state machine (M3 is "
           "its model), closure cells and globals as one read-only name space of the host, one `with` item, no "
           "global / nonlocal statements, annotated assignment to attributes or elements, `yield from`, lambdas and "
           "comprehensions with bindings inside the theorem's fragment (they are inside the AST correspondence and / or "
           "the oracles). ")

CLAIMS["C01"] = dict(
    technique="Lean 4: simulation theorem for the source-to-source rewrite (instrument_refines) composed with an erasure theorem for observing handlers (C01_transparent) + AST correspondence with ptera.transform + executable correspondence with CPython and real probes + differential oracle",
    text=M2 + THM + "Erasure theorem (Proofs/Erase*.lean, by induction over the syntax again): with a handler that "
         "only observes, the reference semantics of a core function without bare declarations (closures included: a cell "
         "that is still empty at the call is left alone at entry, finding F38 — the hypothesis the proof first forced "
         "was run on the implementation, failed there, and was repaired away) is plain Python - globals "
         "read at entry equal globals read at use, re-binding a name to itself after Python's own store is a no-op "
         "because the store leaves the name bound, meta events only touch the handler state. Composition "
         "(C01_transparent): for every such function, every capture set, every host that never hands ptera's marker to "
         "the program, every observing handler, every input, generator script and loop bound, the REWRITTEN function ends "
         "the same way as the UNTOUCHED one, with the same world (ordered side effects), the same values yielded and the "
         "same driver script consumed. C01_transparent_generated instantiates it with the host of the generated programs "
         "and a recording handler: no hypothesis about hosts is left. Outside the theorem's fragment (global / nonlocal, "
         "annotated assignment to attributes or elements, opaque statement forms) the property rests on the correspondence "
         "and the differential oracle: untouched function vs tooled / tooled in place / probed on random subsets of its "
         "variables (result or exception, yields, ordered helper log, object and global state). " + TIE,
    design_ref="DESIGN.md section 5, C01",
    note=NOTE_M2 + "Bare declarations are the documented exception (excluded by noDeclB). The marker assumption "
         "(HostGood) is proved for the concrete host of the generated programs (PyLite.hostGood).",
)
CLAIMS["C02"] = dict(
    technique="Lean 4: events of the rewritten function = events of the reference semantics (corollary of instrument_refines) + per-binding lemmas; AST / executable correspondence; twin-program oracle",
    text=M2 + THM + "Hence the recorded events of the rewritten function are, in order and with their values, those of "
         "the reference semantics (C02_events_are_the_reference_history), in which every binding form contributes exactly "
         "one event with the value bound when the name is captured and none otherwise (C02_one_event_per_binding, "
         "C02_no_event_when_not_captured, C02_rebinding_reports_current_value). " + TIE + "Oracle: probing(f(ctx...) > x) "
         "against the binding log of an independently rendered twin of the same program, for every choice of focus and "
         "context variables — also through a caller that calls the function twice (outer_w > f(ctx) > x: each call is "
         "a call of its own) — and, first, on directed programs that bind the focus once at every position Python binds "
         "a name (else clauses of loops, handlers, finally, with, walrus inside an augmented assignment, …); dotted "
         "imports of one to three components, with and without a module global of the same name; probes whose active "
         "periods overlap without being nested (each stream = the bindings over the calls made while it was active).",
    design_ref="DESIGN.md section 5, C02",
    note=NOTE_M2 + "The context values carried by an event (latest value of the other captures) are the handler's "
         "business (M3, Props/C05/C07) and the twin oracle's.",
)
CLAIMS["C04"] = dict(
    technique="Lean 4: runtime theorems over M3 (last override wins, decline, closure refusal) + program half by instrument_refines for arbitrary (overriding) handlers; AST / executable correspondence; substituted-twin oracle",
    text="Runtime half over the handler model M3: the most recently activated override that answers wins, one that "
         "declines leaves the earlier answer or the original value, an answer for a non-overridable (closure) variable is "
         "an OverrideException, what is logged is the substituted value. Program half: " + M2 + THM + "The theorem holds "
         "for ARBITRARY handlers, overriding ones included: the rewritten function behaves as the reference semantics in "
         "which the binding stores the handler's answer after evaluating the right-hand side once "
         "(C04_rewritten_is_substituted_program, C04_binding_stores_the_answer, C04_rhs_once_then_binding, "
         "C04_declined_untouched; a closure variable is shown to the handler and never re-bound: "
         "C04_closure_never_rebound). " + TIE + "Oracle: overriding probes (constant, context-dependent, conditional — "
         "as a setter that declines and as a filtered stream —; nested with plain probes, through direct and call-path "
         "selectors) against the substituted twin program; an override on a @tooled / tooled.inplace function under and "
         "inside a probe of another variable of it, against the override alone (finding F39).",
    design_ref="DESIGN.md section 5, C04",
    note=NOTE_M2,
)
CLAIMS["C06"] = dict(
    technique="Lean 4: bracket shape of the reference semantics (try/finally, try/except, per-iteration try/finally, yield/receive) + instrument_refines carrying it to the rewritten code; AST / executable correspondence; stream-grammar oracle",
    text="PARTIAL. " + M2 + THM + "In the reference semantics the brackets are the shape of the semantics: with #exit "
         "captured the activation is try/finally whose final part is the #exit event and a finally part runs after every "
         "non-abandoned outcome (C06_exit_on_every_way_out, C06_finally_always_runs); #error is delivered with the "
         "exception exactly when the body ends by raising (C06_error_exactly_on_exception, C06_error_event); an iteration "
         "is try: #loop..; rebind; body finally: #endloop.. (C06_loop_iteration_bracketed); a yield is #yield, suspension, "
         "#receive, and nothing is received when the driver throws or closes (C06_yield_then_receive, "
         "C06_throw_no_receive); return reports through #value and falling off the end is return None. Over whole "
         "runs, by a generic invariant theorem for the interpreter (Proofs/Inv.lean) instantiated for the recording "
         "handler: the events of an activation are #enter, then only events named after variables or the body's own "
         "meta events, then #error with the exception exactly if it ends by raising, then #exit — nothing of the "
         "last two only for an abandoned generator (C06_events_of_activation; C06_rewritten_events for the rewritten "
         "function through the refinement theorem; C06_generated_events with no hypothesis left; "
         "C06_enter_exactly_once). Loop markers: by a relational induction over statements (Proofs/Balance.lean: what a "
         "statement appends never goes below the marker depth it started at and, unless the activation is abandoned, "
         "comes back to it; expressions, targets and bindings record no marker), for every function of the fragment, "
         "capture set treating #loop_y and #endloop_y alike, input, driver script and variable x, the depth of "
         "#loop_x / #endloop_x along the whole activation never goes below zero and ends at zero however iterations "
         "and the activation are left (C06_loop_markers_balanced; C06_rewritten_loop_markers_balanced for the "
         "rewritten function; C06_one_end_per_iteration: as many ends as begins; C06_generic_capture_symmetric). "
         "#yield / #receive: another instance of the invariant theorem, whose kit treats a yield expression as one "
         "step — along the whole activation no #receive occurs without the #yield it answers directly before it, "
         "whatever the driver does (C06_yield_receive_paired, C06_rewritten_yield_receive_paired). #value: a third "
         "relational induction (Proofs/ValueOnce.lean) — for every function of the fragment WITHOUT with blocks and "
         "finally clauses, every capture set taking #enter/#exit/#error/#value, input and driver script, the #value "
         "events of the whole activation are exactly one, carrying the value returned, when the activation ends by "
         "returning, and none when it ends any other way (C06_value_once_partial, C06_rewritten_value_once_partial, "
         "C06_value_count_partial). The FULL statement is false of model and implementation alike: "
         "C06_value_twice_with_finally is the kernel-evaluated witness in the model (try: return 1 finally: return 2 "
         "records two #value events), findings F7c / F7d the same inputs replayed on ptera by the check. The oracle "
         "checks the merged meta-event stream of generated programs against the bracket grammar. " + TIE,
    design_ref="DESIGN.md section 5, C06",
    note=NOTE_M2 + "Known finding F7c (a return in a finally block cancels an exception after #error was delivered). "
         "An abandoned generator (closed, then yields again) gets no #exit: Python never resumes it.",
)
CLAIMS["C10"] = dict(
    technique="Lean 4 theorems on the model of ExternalVariableCollector (table = bound or read names, classification total and exclusive) + provenance-table correspondence with __ptera_info__ + Python symtable oracle",
    text="Over the model of ExternalVariableCollector (`collect`): a name bound by any statement of the body at any "
         "depth (except / with / for / try / if / while blocks, imports, nested def/class, walrus) or read by it is an "
         "entry of the variable table and nothing else is (C10_bound_anywhere_is_selectable, C10_blocks_contribute, "
         "C10_table_is_exactly_bound_or_read), every entry has exactly one provenance (C10_every_entry_has_provenance, "
         "C10_provenance_exclusive), external = read, never bound, not a closure variable "
         "(C10_external_iff_read_only_global), a parameter stays an argument. Tie: for generated functions (some of them "
         "closures) ptera's __ptera_info__ provenance table is compared with the model's on every run, together with the "
         "rewritten tree. Oracle: for every symbol of Python's own symbol table of the function and for fresh names, "
         "activation of f > name succeeds / is refused with a selector error before anything runs, and the recorded "
         "provenance agrees with symtable; non-functions are refused with a type error.",
    design_ref="DESIGN.md section 5, C10",
    note="Python's scoping rules themselves are not modelled in Lean: symtable is the oracle. Lambda parameters and "
         "comprehension variables are recorded by ptera as variables of the function (outside the quantifier of the "
         "property: they occur in the function).",
)
CLAIMS["C16"] = dict(
    technique="Lean 4: declaration semantics and marker theorems over M2 + instrument_refines (declarations are in the fragment); AST / executable correspondence; configuration x path oracle with marker scan",
    text="PARTIAL. " + M2 + THM + "A declaration asks the handler whether or not the name is captured; an answer is "
         "bound, the marker as answer is the ptera name error for that name and the name stays unbound "
         "(C16_declaration_supplied_or_fails); no interact call returns the marker and a binding of a program value "
         "through the handler never stores it (C16_interact_never_returns_marker, C16_binding_never_stores_marker); an "
         "unbound name raises the name error where it is read, an unset global that is never read costs nothing "
         "(C16_undefined_name_is_nameerror, C16_missing_global_skipped). Over whole runs, by a generic invariant theorem "
         "for the interpreter (Proofs/Inv.lean, Proofs/InvMarker.lean): for every function of the fragment, capture "
         "set, host that never produces the marker and handler that answers good values, nothing or a good exception, "
         "however the activation ends no variable, yielded value or pending exception holds the marker and the value "
         "returned / exception raised is not the marker (C16_marker_nowhere); carried to the rewritten function by "
         "the refinement theorem (C16_rewritten_never_returns_marker) and stated without hypotheses for the host and "
         "the recording/overriding handler of the generated programs (C16_generated_host, C16_generated_handler, "
         "C16_generated_never_marker). PARTIAL because the fragment excludes what is outside coreF and because values "
         "handed to accumulating handlers are checked by the oracle only: it runs generated functions with "
         "declarations and conditionally read undefined globals under every subset of supplied variables x {tooled, "
         "probing on subsets, probing on #enter} and scans results and events for the marker. " + TIE,
    design_ref="DESIGN.md section 5, C16",
    note=NOTE_M2 + "The error's annotation/provenance payload is checked on the implementation only.",
)

PENDING_REASON = ("not claimed yet in this build: the Lean model and correspondence check for this property are "
                  "still under construction (see DESIGN.md section 11); the technique applies and the property "
                  "will move to `checks` when its check exists")


def main():
    checks = []
    for pid in ALL:
        c = CLAIMS.get(pid)
        if not c:
            continue
        checks.append({
            "property_id": pid,
            "quick_cmd": "./check %s quick" % pid,
            "thorough_cmd": "./check %s thorough" % pid,
            "evidence_file": "evidence/%s.json" % pid,
            "replay_cmd_template": "./check %s quick --replay {path}" % pid,
            "engine": "lean-proof+correspondence",
            "level_claimed": {"category": "proof", "text": c["text"], "design_ref": c["design_ref"]},
            "level_note": LEVEL_NOTE + c["note"],
            "technique": c["technique"],
        })
    man = {
        "version": 1,
        "setup_cmd": "cd lean && lake build",
        "hooks": {
            "guard": "PTERA_VERIF",
            "enable": "no source hooks are used: the harness observes ptera through its public API, by wrapping ptera.transform._compile from the harness process, and with sys.settrace; PTERA_VERIF is reserved",
            "baseline_off_cmd": "cd /repo && /venv/bin/python -m pytest -ra -q -p no:cacheprovider --timeout=900 --continue-on-collection-errors",
            "source_commits": [],
            "add_only": True,
        },
        "engines": [{
            "name": "lean-proof+correspondence",
            "path": "check",
            "serves_properties": [c["property_id"] for c in checks],
            "kind_free_text": "Lean 4 theorems about executable models (lean/PteraModel), tied to /repo by a translator (harness/extract.py -> Generated/*.lean) and by differential runs of the compiled model driver against the implementation (harness/props/*.py)",
        }],
        "checks": checks,
        "not_applicable": [{"property_id": p, "reason": PENDING_REASON} for p in ALL if p not in CLAIMS],
        "notes": "See DESIGN.md. Exit codes of ./check: 0 held, 1 VIOLATION, 2 infrastructure/timeout.",
    }
    with open(os.path.join(VERIF, "MANIFEST.json"), "w") as f:
        json.dump(man, f, indent=1)
        f.write("\n")


if __name__ == "__main__":
    main()
