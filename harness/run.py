"""Entry point: run one property's check.  See DESIGN.md section 2.3."""
import importlib
import os
import sys
import traceback

sys.path.insert(0, os.path.dirname(os.path.abspath(__file__)))
import core  # noqa: E402

try:        # `kill -USR1 <pid>` prints the stacks of all threads (diagnosis of a check that does not return)
    import faulthandler
    import signal
    faulthandler.register(signal.SIGUSR1, all_threads=True)
except Exception:  # noqa
    pass


def main(argv):
    if len(argv) < 2:
        print("usage: check <Cnn> <quick|thorough> [--replay file]")
        return 2
    prop = argv[0]
    tier = argv[1] if argv[1] in ("quick", "thorough") else os.environ.get("VERIF_TIER", "quick")
    replay = None
    if "--replay" in argv:
        replay = argv[argv.index("--replay") + 1]
    try:
        seed = int(os.environ.get("VERIF_SEED", "0"))
    except ValueError:
        seed = 0
    try:
        mod = importlib.import_module("props.%s" % prop.lower())
    except ImportError as e:
        print("no check for %s: %s" % (prop, e))
        return 2
    chk = core.Check(prop, tier, seed)
    try:
        core.setup_ptera_path()
        if replay:
            return mod.replay(chk, replay)
        chk.proof_leg(getattr(mod, "EXTRA_TARGETS", ()))
        if tier == "thorough" and chk.build_ok:
            chk.thorough_recheck()
        mod.run(chk)
        return chk.finish()
    except core.Infra as e:
        print("INFRASTRUCTURE: %s" % e)
        return 2
    except Exception:
        traceback.print_exc()
        print("INFRASTRUCTURE: unexpected exception in the harness")
        return 2


if __name__ == "__main__":
    sys.exit(main(sys.argv[1:]))
