"""Deterministic scheduler for real threads: each worker activates its own probe, calls the shared
function and deactivates; a trace function stops it before every source line that starts a group of
the generated step skeleton, and the controller releases exactly one thread per schedule entry."""
import os
import sys
import threading

STOP_TIMEOUT = 3.0


class Stuck(Exception):
    pass


class Controller:
    def __init__(self, n, stop_lines):
        self.n = n
        self.stop_lines = stop_lines           # set of (basename, lineno)
        self.cv = threading.Condition()
        self.where = [None] * n                # where each thread is blocked (None = running / not started)
        self.arrivals = [0] * n                # how many times each thread has reached a stop point
        self.seen = [0] * n                    # … and how many of those the controller has consumed
        self.go = [False] * n
        self.done = [False] * n
        self.error = [None] * n
        self.abort = False                     # the schedule is over (or given up): nobody stops any more

    # ---- worker side
    def arrive(self, tid, place):
        with self.cv:
            if self.abort:
                return
            self.where[tid] = place
            self.arrivals[tid] += 1
            self.cv.notify_all()
            while not self.go[tid] and not self.abort:
                self.cv.wait()
            self.go[tid] = False
            self.where[tid] = None

    def let_go(self, threads):
        """whatever happened: no thread may stay parked (it could hold the tooling lock for ever)"""
        with self.cv:
            self.abort = True
            self.cv.notify_all()
        for th in threads:
            th.join(timeout=STOP_TIMEOUT)

    def finish(self, tid, err=None):
        with self.cv:
            self.done[tid] = True
            self.error[tid] = err
            self.cv.notify_all()

    def tracer(self, tid):
        stop = self.stop_lines

        def local(frame, event, arg):
            if event == "line":
                key = (os.path.basename(frame.f_code.co_filename), frame.f_lineno)
                if key in stop:
                    self.arrive(tid, key)
            return local

        def glob(frame, event, arg):
            if event == "call":
                fn = frame.f_code.co_filename
                if fn.endswith(os.path.join("ptera", "overlay.py")) or fn.endswith(os.path.join("ptera", "transform.py")):
                    return local
            return None
        return glob

    # ---- controller side
    def wait_blocked_or_done(self, tid):
        """wait for the next (not yet consumed) arrival of the thread at a stop point, or its end"""
        with self.cv:
            ok = self.cv.wait_for(lambda: self.arrivals[tid] > self.seen[tid] or self.done[tid],
                                  timeout=STOP_TIMEOUT)
            if not ok:
                raise Stuck("thread %d neither reached a stop point nor finished" % tid)
            if self.arrivals[tid] > self.seen[tid]:
                self.seen[tid] = self.arrivals[tid]
                return self.where[tid]
            return None

    def release(self, tid):
        with self.cv:
            self.go[tid] = True
            self.cv.notify_all()


def run_schedule(workers, expected, steps):
    """workers: list of callables(tid, ctrl); expected: per thread the list of stop places of its program
    groups; steps: list of (thread id, program position), one ENABLED group each (in order).
    A thread may skip stops (branches not taken) or hit a stop repeatedly (loops): the controller aligns
    on the expected sequence."""
    n = len(workers)
    stop_lines = {p for e in expected for p in e if p[0] != "call"}
    ctrl = Controller(n, stop_lines)
    threads = []
    for tid, w in enumerate(workers):
        def body(tid=tid, w=w):
            sys.settrace(ctrl.tracer(tid))
            try:
                w(tid, ctrl)
                ctrl.finish(tid)
            except BaseException as e:  # noqa
                ctrl.finish(tid, e)
            finally:
                sys.settrace(None)
        th = threading.Thread(target=body, daemon=True)
        threads.append(th)
        th.start()
    idx = [0] * n            # next group of each thread's program to execute
    try:
        yield from _run_schedule_body(ctrl, threads, expected, steps, idx, n)
    finally:
        ctrl.let_go(threads)


def _run_schedule_body(ctrl, threads, expected, steps, idx, n):
    def align(tid):
        """bring thread tid to the stop that begins group idx[tid] (draining repeats / skipping absent)"""
        while True:
            place = ctrl.wait_blocked_or_done(tid)
            if ctrl.done[tid]:
                idx[tid] = len(expected[tid])
                return
            exp = expected[tid]
            # the thread is blocked before `place`: which group does that start?
            if idx[tid] > 0 and exp[idx[tid] - 1] == place:
                ctrl.release(tid)     # the line just executed again (loop / comprehension iteration)
                continue
            j = idx[tid]
            while j < len(exp) and j < idx[tid] + 4 and exp[j] != place:
                j += 1
            if j < len(exp) and exp[j] == place:
                idx[tid] = j          # groups in between were not executed by the real code (no-ops)
                return
            ctrl.release(tid)         # not a scheduling point of this program position

    for tid in range(n):
        align(tid)
    for (tid, pc) in steps:
        if ctrl.done[tid] or idx[tid] > pc:
            # the real code did not execute this group (a branch not taken): nothing to release
            yield (tid, pc, False)
            continue
        idx[tid] = pc + 1
        ctrl.release(tid)
        align(tid)
        yield (tid, pc, True)
    # drain: every thread is either finished or blocked at a stop point whose arrival has been consumed
    for tid in range(n):
        while not ctrl.done[tid]:
            ctrl.release(tid)
            ctrl.wait_blocked_or_done(tid)
    for th in threads:
        th.join(timeout=STOP_TIMEOUT)
    errs = [e for e in ctrl.error if e is not None]
    if errs:
        raise errs[0]


def run_free(workers, stop_lines, schedule, quantum=0.2):
    """model-free forced interleaving: every thread stops before each line in stop_lines; each schedule
    entry lets one thread run to its next stop.  A thread that does not reach a stop within `quantum`
    seconds is taken to be blocked on a lock and is skipped until it shows up again."""
    n = len(workers)
    ctrl = Controller(n, set(stop_lines))
    threads = []
    for tid, w in enumerate(workers):
        def body(tid=tid, w=w):
            sys.settrace(ctrl.tracer(tid))
            try:
                w(tid, ctrl)
                ctrl.finish(tid)
            except BaseException as e:  # noqa
                ctrl.finish(tid, e)
            finally:
                sys.settrace(None)
        th = threading.Thread(target=body, daemon=True)
        threads.append(th)
        th.start()

    def arrived(tid, timeout):
        with ctrl.cv:
            ok = ctrl.cv.wait_for(lambda: ctrl.arrivals[tid] > ctrl.seen[tid] or ctrl.done[tid], timeout=timeout)
            if ok and ctrl.arrivals[tid] > ctrl.seen[tid]:
                ctrl.seen[tid] = ctrl.arrivals[tid]
            return ok

    parked = [False] * n            # blocked at a stop point whose arrival has been consumed
    try:
        _run_free_body(ctrl, threads, schedule, quantum, arrived, parked, n)
    finally:
        ctrl.let_go(threads)
    errs = [e for e in ctrl.error if e is not None]
    if errs:
        raise errs[0]


def _run_free_body(ctrl, threads, schedule, quantum, arrived, parked, n):
    for tid in range(n):
        parked[tid] = arrived(tid, STOP_TIMEOUT) and not ctrl.done[tid]
    for tid in schedule:
        if ctrl.done[tid]:
            continue
        if not parked[tid]:
            # it was running (blocked on a lock): see whether it has shown up meanwhile
            parked[tid] = arrived(tid, 0.01) and not ctrl.done[tid]
            if not parked[tid]:
                continue
        ctrl.release(tid)
        parked[tid] = arrived(tid, quantum) and not ctrl.done[tid]
    # drain
    import time
    deadline = time.time() + 10
    while not all(ctrl.done) and time.time() < deadline:
        for tid in range(n):
            if ctrl.done[tid]:
                continue
            if parked[tid]:
                ctrl.release(tid)
                parked[tid] = False
            parked[tid] = arrived(tid, 0.05) and not ctrl.done[tid]
    if not all(ctrl.done):
        raise Stuck("threads did not finish")
    for th in threads:
        th.join(timeout=STOP_TIMEOUT)
    errs = [e for e in ctrl.error if e is not None]
    if errs:
        raise errs[0]
