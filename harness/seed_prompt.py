import sys
pid=sys.argv[1]
rnd=sys.argv[2] if len(sys.argv)>2 else ''
tag=(rnd+'-' if rnd else '')+pid
import json
prop=''
for l in open('/verif/properties.jsonl'):
    p=json.loads(l)
    if p['id']==pid: prop='PROPERTY %s — %s\n\nStatement: %s\n\nQuantifier: %s\n' % (p['id'],p['title'],p['statement'],p['quantifier']['text'])
print(f"""You are helping test a verification effort for the Python library `ptera` (breuleux/ptera), an instrumentation library that rewrites function ASTs so a selector DSL can probe and override local variables along call paths.

You have your own scratch git worktree of the library at /tmp/wt/{tag} (a checkout of the current development commit). Work ONLY inside /tmp/wt/{tag} and /tmp/seed/{tag}/ . Do NOT read or touch /verif or /repo (anything there is off-limits: your work must be independent of it).

Here is a semantic property the library is supposed to satisfy:

{prop}

YOUR TASK: produce {"TWO independent realistic changes (call them a and b; they must live in DIFFERENT functions, preferably different files or mechanisms, and each is delivered separately: directories /tmp/seed/"+tag+"/a and /tmp/seed/"+tag+"/b instead of /tmp/seed/"+tag+", each patch made against the clean checkout, NOT stacked). Each is ONE realistic change" if rnd else "ONE realistic change"} (a bug a maintainer could plausibly introduce during a refactor or an optimisation) to the library source under /tmp/wt/{tag}/ptera/ that BREAKS this property, while:
  1. the library still imports and the existing test suite still passes completely. Run it like this (cwd must be the worktree so that the worktree's ptera is imported):
       cd /tmp/wt/{tag} && /venv/bin/python -m pytest -q -p no:cacheprovider --timeout=900 -x -q
     (269 tests must pass with your change.)
  2. the breakage needs something SPECIFIC to manifest — a particular multi-step sequence of operations, an unusual input, a particular nesting/recursion shape, a particular interleaving, or two cooperating sites that each look fine alone. It must NOT be something ordinary use would expose at once (if the most basic documented usage of the feature fails, the change is too blunt; find something subtler).
  3. the change is small (a few lines), compiles, and looks innocent.

Deliverables, all under /tmp/seed/{tag}/ :
  - patch.diff : output of `git -C /tmp/wt/{tag} diff` (must apply with `git apply` on a clean checkout of the same commit).
  - demo.py : a small self-contained program, run as `cd <checkout> && /venv/bin/python /tmp/seed/{tag}/demo.py` (it must import ptera from the current working directory's checkout — put `import sys, os; sys.path.insert(0, os.getcwd())` at the top), that exits 0 on the unchanged library and exits non-zero (an assertion failure showing the property broken) with your patch applied. Functions probed by ptera must be defined in a real file (demo.py itself is fine) because ptera reads their source with inspect.
  - meta.json : {{"property": "{pid}", "summary": "<what was changed>", "needs": "<what specific condition is needed for the breakage to manifest>", "files": [...], "ran": ["<commands you ran and their outcome>"]}}

Verify all three claims yourself before finishing: (a) pytest passes with the patch, (b) demo.py fails with the patch, (c) on the unchanged code demo.py passes (save your change with `git -C /tmp/wt/{tag} diff > /tmp/seed/{tag}/patch.diff`, then `git -C /tmp/wt/{tag} checkout -- .`, run, then `git -C /tmp/wt/{tag} apply /tmp/seed/{tag}/patch.diff`; do NOT use git stash: the stash is shared between worktrees). Leave the worktree with the patch applied (uncommitted). In your final message, summarise the change and what it needs to manifest in 5 lines.{" NOTE for the two-change task: wherever the text above says /tmp/seed/"+tag+"/<file>, deliver /tmp/seed/"+tag+"/a/<file> for change a and /tmp/seed/"+tag+"/b/<file> for change b (patch.diff, demo.py, meta.json each); verify claims (a)(b)(c) for each change on its own; leave the worktree clean (no patch applied) at the end." if rnd else ""}""")
