"""Run one (handlers, call tree) case on the implementation and on the model (M3)."""
import json

import treegen


def make_override(spec):
    from ptera.utils import ABSENT
    if spec is None:
        return None
    if spec["o"] == "const":
        return lambda args: spec["v"]
    if spec["o"] == "addTo":
        def f(args):
            c = args.get(spec["cap"])
            if c is None or len(c.values) != 1:
                return ABSENT
            return c.values[0] + spec["k"]
        return f
    if spec["o"] == "ifEq":
        def g(args):
            c = args.get(spec["cap"])
            if c is None or len(c.values) != 1 or c.values[0] != spec["v"]:
                return ABSENT
            return spec["res"]
        return g
    raise ValueError(spec)


def run_impl(family, hspecs, env, roots):
    """hspecs: list of dict(kind, selector (string), trigger, intercept, close); roots: [(fi, script)]
    -> (events, error, handler json for the model)"""
    from ptera import BaseOverlay, Immediate, Total
    from ptera.selector import select
    from ptera.interpret import OverrideException
    from ptera.transform import PteraNameError
    from ptera.utils import ABSENT
    events = []
    rules = []
    hjson = []
    for hi, h in enumerate(hspecs):
        sel = select(h["selector"], env=env)
        ov = make_override(h.get("intercept"))

        def trig(args, hi=hi):
            events.append({"ev": "trigger", "h": hi, "args": treegen.snap_json(args)})

        def clos(args, hi=hi):
            events.append({"ev": "close", "h": hi, "args": treegen.snap_json(args)})

        def icpt(args, hi=hi, ov=ov):
            r = ov(args)
            events.append({"ev": "intercept", "h": hi, "args": treegen.snap_json(args),
                           "reply": None if r is ABSENT else r})
            return r

        if h["kind"] == "immediate":
            rules.append(Immediate(sel, trigger=trig if h.get("trigger") else None,
                                   intercept=icpt if ov else None))
        else:
            rules.append(Total(sel, close=clos, trigger=trig if h.get("trigger") else None))
        hjson.append({"kind": h["kind"], "sel": treegen.sel_json(sel, family.funs),
                      "trigger": bool(h.get("trigger")), "intercept": h.get("intercept"),
                      "close": h["kind"] == "total"})
    error = None
    with BaseOverlay(*rules):
        for fi, script in roots:
            try:
                family.funs[fi](script)
            except OverrideException as e:
                error = {"err": "OverrideException", "var": str(e).split("'")[1]}
                break
            except PteraNameError as e:
                error = {"err": "PteraNameError", "var": e.varname}
                break
            except family.mod.Boom:
                error = {"err": "Boom"}
                break
    return events, error, hjson


def model_request(family, hjson, roots):
    return {"op": "handlers", "handlers": hjson, "infos": family.infos(),
            "trees": [family.tree(fi, script)[0] for fi, script in roots]}


def canon(x):
    return json.dumps(x, sort_keys=True)
